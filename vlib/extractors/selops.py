"""TRANSLATOR: `SelectResults.clone` and the `ops`-touching statements of `SelectResults.__init__`
(sqlobject/sresults.py) -> PyOps blocks (lean/SqlObjVerif/Model/PyOps.lean).

What is translated: every statement of the two functions that mentions an ops dict (`ops`, `newOps`,
`<x>.ops`).  Statements that mention none are skipped; sub-expressions that mention none become
opaque (`.other n`, value drawn from an oracle the theorems quantify over).
What is CHECKED syntactically in addition (ExtractError otherwise): no other function of
sresults.py, and nothing in inheritance/__init__.py, stores into an `.ops` attribute, mutates an
`<x>.ops` dict or a local alias of one, or shallow-copies a select (`copy.copy`).
"""
import ast
from . import ExtractError, parse, find_class, find_func, strip_doc, HEADER

TARGET = 'SelOps'

MUTATORS = {'update', 'pop', 'setdefault', 'clear', 'popitem', '__setitem__', '__delitem__'}


class Tr:
    def __init__(self, params):
        self.nval = 0
        self.ncond = 0
        # dict-valued names -> canonical name in the translation (renaming a local changes nothing)
        self.dnames = dict(params)

    def mentions(self, n):
        for x in ast.walk(n):
            if isinstance(x, ast.Name) and x.id in self.dnames:
                return True
            if isinstance(x, ast.Attribute) and x.attr == 'ops':
                return True
        return False

    def dname(self, n):
        if isinstance(n, ast.Name) and n.id in self.dnames:
            return self.dnames[n.id]
        if isinstance(n, ast.Attribute) and n.attr == 'ops' and isinstance(n.value, ast.Name) and n.value.id == 'self':
            return 'self.ops'
        raise ExtractError('dict expression outside the fragment: %s' % ast.unparse(n))

    def key(self, n):
        if isinstance(n, ast.Constant) and isinstance(n.value, str):
            return n.value
        raise ExtractError('non-literal dict key: %s' % ast.unparse(n))

    def lit(self, n):
        if isinstance(n, ast.Constant) and n.value is None:
            return '(.lit .pyNone)'
        if isinstance(n, ast.Constant) and isinstance(n.value, int) and not isinstance(n.value, bool):
            return '(.lit (.int (%d)))' % n.value
        if ast.unparse(n) in ('sqlbuilder.NoDefault', 'NoDefault'):
            return '(.lit .noDefault)'
        return None

    def expr(self, n):
        l = self.lit(n)
        if l:
            return l
        if not self.mentions(n):
            self.nval += 1
            return '(.other %d)' % (self.nval - 1)
        if isinstance(n, ast.Call) and isinstance(n.func, ast.Attribute) and n.func.attr == 'get' \
                and len(n.args) == 2 and not n.keywords:
            return '(.get "%s" "%s" %s)' % (self.dname(n.func.value), self.key(n.args[0]), self.expr(n.args[1]))
        if isinstance(n, ast.Subscript) and not isinstance(n.slice, ast.Slice):
            return '(.item "%s" "%s")' % (self.dname(n.value), self.key(n.slice))
        raise ExtractError('expression outside the fragment: %s' % ast.unparse(n))

    def cond(self, n):
        if not self.mentions(n):
            self.ncond += 1
            return '(.other %d)' % (self.ncond - 1)
        if isinstance(n, ast.UnaryOp) and isinstance(n.op, ast.Not):
            return '(.not %s)' % self.cond(n.operand)
        if isinstance(n, ast.BoolOp) and isinstance(n.op, ast.And):
            parts = [self.cond(v) for v in n.values]
            out = parts[-1]
            for p in reversed(parts[:-1]):
                out = '(.and %s %s)' % (p, out)
            return out
        if isinstance(n, ast.Compare) and len(n.ops) == 1:
            op, rhs = n.ops[0], n.comparators[0]
            if isinstance(op, ast.Is):
                r = self.lit(rhs)
                if r == '(.lit .pyNone)':
                    return '(.isNone %s)' % self.expr(n.left)
                if r == '(.lit .noDefault)':
                    return '(.isNoDefault %s)' % self.expr(n.left)
            if isinstance(op, ast.In):
                return '(.contains "%s" "%s")' % (self.key(n.left), self.dname(rhs))
            raise ExtractError('comparison outside the fragment: %s' % ast.unparse(n))
        return '(.truthy %s)' % self.expr(n)

    def stmts(self, body):
        out = []
        for s in body:
            out.extend(self.stmt(s))
        return out

    def block(self, body):
        out = '.nil'
        for s in reversed(self.stmts(body)):
            out = '(.cons %s\n    %s)' % (s, out)
        return out

    def stmt(self, n):
        if not self.mentions(n):
            # returns / raises would change control flow: not skippable
            for x in ast.walk(n):
                if isinstance(x, (ast.Return, ast.Raise)):
                    raise ExtractError('control flow in a skipped statement: %s' % ast.unparse(n).split('\n')[0])
            return []
        if isinstance(n, ast.Assign) and len(n.targets) == 1:
            t, v = n.targets[0], n.value
            # self.ops = ops
            if isinstance(t, ast.Attribute) and t.attr == 'ops':
                if not (isinstance(t.value, ast.Name) and t.value.id == 'self'):
                    raise ExtractError('store into the ops of another object: %s' % ast.unparse(n))
                return ['(.bindSelfOps "%s")' % self.dname(v)]
            # ops = self.ops.copy()
            if isinstance(t, ast.Name) and isinstance(v, ast.Call) and isinstance(v.func, ast.Attribute) \
                    and v.func.attr == 'copy' and not v.args and not v.keywords:
                src = self.dname(v.func.value)
                if 'ops' in self.dnames.values() and self.dnames.get(t.id) != 'ops':
                    raise ExtractError('a second dict local: %s' % ast.unparse(n))
                self.dnames[t.id] = 'ops'
                return ['(.copy "ops" "%s")' % src]
            # d[k] = d2.pop(k2)   /   d[k] = e
            if isinstance(t, ast.Subscript):
                d, k = self.dname(t.value), self.key(t.slice)
                if isinstance(v, ast.Call) and isinstance(v.func, ast.Attribute) and v.func.attr == 'pop' \
                        and len(v.args) == 1 and not v.keywords:
                    return ['(.pop "_t" "%s" "%s")' % (self.dname(v.func.value), self.key(v.args[0])),
                            '(.setItem "%s" "%s" (.loc "_t"))' % (d, k)]
                return ['(.setItem "%s" "%s" %s)' % (d, k, self.expr(v))]
            # value local = expression over an ops dict
            if isinstance(t, ast.Name) and t.id not in self.dnames:
                return ['(.assign "%s" %s)' % (t.id, self.expr(v))]
        if isinstance(n, ast.Expr) and isinstance(n.value, ast.Call) and isinstance(n.value.func, ast.Attribute) \
                and n.value.func.attr == 'update' and len(n.value.args) == 1 and not n.value.keywords:
            return ['(.update "%s" "%s")' % (self.dname(n.value.func.value), self.dname(n.value.args[0]))]
        if isinstance(n, ast.Delete) and len(n.targets) == 1 and isinstance(n.targets[0], ast.Subscript):
            t = n.targets[0]
            return ['(.delItem "%s" "%s")' % (self.dname(t.value), self.key(t.slice))]
        if isinstance(n, ast.If):
            return ['(.ite %s %s %s)' % (self.cond(n.test), self.block(n.body), self.block(n.orelse))]
        if isinstance(n, ast.Assert):
            return ['(.assert %s)' % self.cond(n.test)]
        if isinstance(n, ast.Return) and isinstance(n.value, ast.Call) \
                and ast.unparse(n.value.func) == 'self.__class__':
            c = n.value
            if any(self.mentions(a) for a in c.args):
                raise ExtractError('an ops dict passed positionally: %s' % ast.unparse(n))
            if len(c.keywords) != 1 or c.keywords[0].arg is not None:
                raise ExtractError('constructor call is no longer `self.__class__(…, **ops)`: %s' % ast.unparse(n))
            return ['(.construct "%s")' % self.dname(c.keywords[0].value)]
        raise ExtractError('statement outside the fragment: %s' % ast.unparse(n).split('\n')[0])


def _scan_no_other_writer(tree, fname, allowed):
    """no function outside `allowed` writes to an ops dict of a select"""
    for cls in [n for n in ast.walk(tree) if isinstance(n, ast.ClassDef)]:
        for fn in [n for n in cls.body if isinstance(n, ast.FunctionDef)]:
            if (cls.name, fn.name) in allowed:
                continue
            where = '%s: %s.%s' % (fname, cls.name, fn.name)
            alias = set()
            for x in ast.walk(fn):
                if isinstance(x, ast.Assign) and isinstance(x.value, ast.Attribute) and x.value.attr == 'ops':
                    for t in x.targets:
                        if isinstance(t, ast.Name):
                            alias.add(t.id)

            def is_ops(e):
                return (isinstance(e, ast.Attribute) and e.attr == 'ops') or (isinstance(e, ast.Name) and e.id in alias)
            for x in ast.walk(fn):
                if isinstance(x, ast.Attribute) and x.attr == 'ops' and isinstance(x.ctx, (ast.Store, ast.Del)):
                    raise ExtractError('%s stores into an .ops attribute' % where)
                if isinstance(x, ast.Subscript) and isinstance(x.ctx, (ast.Store, ast.Del)) and is_ops(x.value):
                    raise ExtractError('%s writes into an ops dict' % where)
                if isinstance(x, ast.Call) and isinstance(x.func, ast.Attribute) and x.func.attr in MUTATORS \
                        and is_ops(x.func.value):
                    raise ExtractError('%s mutates an ops dict (.%s)' % (where, x.func.attr))
                if isinstance(x, ast.Call) and ast.unparse(x.func) in ('copy.copy', 'copy') and x.args \
                        and ast.unparse(x.args[0]) == 'self':
                    raise ExtractError('%s shallow-copies a select' % where)
                if isinstance(x, ast.Call) and isinstance(x.func, ast.Name) and x.func.id in ('setattr',) \
                        and len(x.args) >= 2 and isinstance(x.args[1], ast.Constant) and x.args[1].value == 'ops':
                    raise ExtractError('%s stores into an .ops attribute (setattr)' % where)


def extract(repo):
    tree = parse(repo, 'sqlobject/sresults.py')
    cls = find_class(tree, 'SelectResults')
    init = find_func(cls, '__init__')
    clone = find_func(cls, 'clone')
    a = init.args
    if [x.arg for x in a.args] != ['self', 'sourceClass', 'clause', 'clauseTables'] or a.vararg is not None \
            or a.kwarg is None or a.kwarg.arg != 'ops':
        raise ExtractError('unexpected signature of SelectResults.__init__')
    a = clone.args
    if [x.arg for x in a.args] != ['self'] or a.vararg is not None or a.kwarg is None or a.kwarg.arg != 'newOps':
        raise ExtractError('unexpected signature of SelectResults.clone')
    _scan_no_other_writer(tree, 'sresults.py', {('SelectResults', '__init__'), ('SelectResults', 'clone')})
    _scan_no_other_writer(parse(repo, 'sqlobject/inheritance/__init__.py'), 'inheritance/__init__.py', set())
    ti, tc = Tr({'ops': 'ops'}), Tr({'newOps': 'newOps'})
    lines = [HEADER % 'selops', 'import SqlObjVerif.Model.PyOps', '',
             'namespace SqlObjVerif.PyOps.Extracted', 'open SqlObjVerif.PyOps', '',
             '/-- the statements of `SelectResults.__init__` that mention the `ops` dict, translated -/',
             'def initProg : Block :=\n  %s' % ti.block(strip_doc(init.body)), '',
             '/-- `SelectResults.clone`, translated -/',
             'def cloneProg : Block :=\n  %s' % tc.block(strip_doc(clone.body)), '',
             'end SqlObjVerif.PyOps.Extracted']
    return '\n'.join(lines) + '\n'
