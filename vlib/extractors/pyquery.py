"""TRANSLATOR: the query-planning code of sqlobject -> PyQuery blocks.

`SelectResults.*` (sqlobject/sresults.py), `Select.__init__ / clone / newItems / unlimited / orderBy`, the ORDER BY
statement of `Select.__sqlrepr__`, `_str_or_sqlrepr`, `DESC.__sqlrepr__`, `AND`, `OR` (sqlobject/sqlbuilder.py),
`DBAPI.accumulateSelect / _SO_columnClause / _SO_selectOneAlt`, `Iteration.next` (sqlobject/dbconnection.py),
`SQLObject.selectBy / _SO_fetchAlternateID` (sqlobject/main.py) and `SODatabaseIndex.get` (sqlobject/index.py) are
translated statement by statement into the deep embedding of `lean/SqlObjVerif/Model/PyQuery.lean`.  Anything outside
the fragment raises ExtractError.  Conventions of the translation:
  * locals are numbered in order of first binding, the parameters (including `self` / `cls`, `*args`, `**kw`) first,
    comprehension variables and the temporaries of hoisted `pop` calls after them: a behaviour-preserving rename of a
    local gives the same term;
  * every top-level statement of a function becomes its own definition `<f>_s<k>` and the function is the block of these;
    the body of the n-th `for` loop (source order) is `<f>_for<n>`, condition and element of the n-th comprehension are
    `<f>_comp<n>_c` / `<f>_comp<n>_e`;
  * a NAME that is not a local is a module-level object: as a callee `.call "<name>"`, as a value `.glob "<name>"`;
    the qualifiers `sqlbuilder.` and `main.` are dropped (`sqlbuilder.DESC` and `DESC` are the same name);
  * the call of an attribute `o.m(…)` is a method call (`self.__class__(…)`, `cls.SelectResultsClass(…)` included);
    `x.append(e)` / `x.update(e)` / `x.add(e)` as a statement on a local is a mutation of the local;
  * `t = x.pop(k[, d])` is a statement; a `x.pop(k)` nested in another statement is hoisted into a temporary in front
    of it when everything else in the statement is call-free (names, attributes, constants, tuples);
  * `x.a = y` for locals `x`, `y` at the top level of a function LINKS the attribute to the local: every later mutation
    of `y` carries the link and is written through (see Model/PyQuery.lean); `y` must not be rebound afterwards;
  * `x += e` / `x -= e` are `x = x + e` / `x = x - e`; `assert c, msg` is `assert c`; `raise E(msg)` is `raise E`;
    `from . import main` is `pass`; the only nested function accepted is the identity `def f(x): return x`;
  * `list(map(o.m, e))` is one expression form (`mapMethod`).
"""
import ast
from . import ExtractError, parse, find_class, find_func, strip_doc, HEADER, lean_str

TARGET = 'PyQuery'

CMP = {ast.Eq: '.eq', ast.NotEq: '.ne', ast.Lt: '.lt', ast.LtE: '.le', ast.Gt: '.gt', ast.GtE: '.ge',
       ast.In: '.isIn', ast.NotIn: '.notIn'}
QUALIFIERS = ('sqlbuilder', 'main')
EXC = {'TypeError': '.typeError', 'AssertionError': '.assertionError', 'KeyError': '.keyError',
       'IndexError': '.indexError', 'AttributeError': '.attributeError', 'ValueError': '.valueError',
       'StopIteration': '.stopIteration', 'SQLObjectNotFound': '.notFound',
       'SQLObjectIntegrityError': '.integrityError'}
MUTATORS = ('append', 'update', 'add')

SR = 'sqlobject/sresults.py'
SB = 'sqlobject/sqlbuilder.py'
DB = 'sqlobject/dbconnection.py'
# (file, class or None, python name, lean name, decorator)
FUNCTIONS = [
    (SR, 'SelectResults', '__init__', 'srInit', None),
    (SR, 'SelectResults', '_mungeOrderBy', 'mungeOrderBy', None),
    (SR, 'SelectResults', '_getConnection', 'srGetConnection', None),
    (SR, 'SelectResults', 'clone', 'srClone', None),
    (SR, 'SelectResults', 'orderBy', 'srOrderBy', None),
    (SR, 'SelectResults', 'reversed', 'srReversed', None),
    (SR, 'SelectResults', 'distinct', 'srDistinct', None),
    (SR, 'SelectResults', 'newClause', 'srNewClause', None),
    (SR, 'SelectResults', 'filter', 'srFilter', None),
    (SR, 'SelectResults', 'queryForSelect', 'srQueryForSelect', None),
    (SR, 'SelectResults', 'accumulate', 'srAccumulate', None),
    (SR, 'SelectResults', 'count', 'srCount', None),
    (SR, 'SelectResults', 'accumulateMany', 'srAccumulateMany', None),
    (SR, 'SelectResults', 'accumulateOne', 'srAccumulateOne', None),
    (SR, 'SelectResults', 'sum', 'srSum', None),
    (SR, 'SelectResults', 'min', 'srMin', None),
    (SR, 'SelectResults', 'avg', 'srAvg', None),
    (SR, 'SelectResults', 'max', 'srMax', None),
    (SR, 'SelectResults', 'getOne', 'srGetOne', None),
    (SR, 'SelectResults', '__iter__', 'srIter', None),
    (SR, 'SelectResults', 'lazyIter', 'srLazyIter', None),
    (SB, 'Select', '__init__', 'selInit', None),
    (SB, 'Select', 'clone', 'selClone', None),
    (SB, 'Select', 'newItems', 'selNewItems', None),
    (SB, 'Select', 'unlimited', 'selUnlimited', None),
    (SB, 'Select', 'orderBy', 'selOrderBy', None),
    (SB, 'Select', '__sqlrepr__#orderBy', 'selOrderByRepr', None),
    (SB, None, '_str_or_sqlrepr', 'strOrSqlrepr', 'function'),
    (SB, 'DESC', '__sqlrepr__', 'descSqlrepr', None),
    (SB, None, 'AND', 'andFn', 'function'),
    (SB, None, 'OR', 'orFn', 'function'),
    (DB, 'DBAPI', 'accumulateSelect', 'accumulateSelect', None),
    (DB, 'DBAPI', '_SO_columnClause', 'columnClause', None),
    (DB, 'DBAPI', '_SO_selectOneAlt', 'selectOneAlt', None),
    (DB, 'Iteration', 'next', 'iterNext', None),
    ('sqlobject/main.py', 'SQLObject', 'selectBy', 'selectBy', 'classmethod'),
    ('sqlobject/main.py', 'SQLObject', '_SO_fetchAlternateID', 'fetchAlternateID', 'classmethod'),
    ('sqlobject/index.py', 'SODatabaseIndex', 'get', 'indexGet', None),
]

ORDER_TEST = "self.ops['orderBy'] is not NoDefault and self.ops['orderBy'] is not None"


def lean_chars(s):
    out = []
    for ch in s:
        o = ord(ch)
        if ch == "'":
            out.append("'\\''")
        elif ch == '\\':
            out.append("'\\\\'")
        elif 32 <= o < 127:
            out.append("'%s'" % ch)
        else:
            out.append('(Char.ofNat %d)' % o)
    return '[' + ', '.join(out) + ']'


def _order_part(cls):
    """the ORDER BY statement of Select.__sqlrepr__ as a function (self, db, select) -> select"""
    fn = find_func(cls, '__sqlrepr__')
    hits = [s for s in fn.body if isinstance(s, ast.If) and ast.unparse(s.test) == ORDER_TEST]
    if len(hits) != 1:
        raise ExtractError('Select.__sqlrepr__: the ORDER BY statement (if %s) was not found' % ORDER_TEST)
    st = hits[0]
    if st.orelse:
        raise ExtractError('Select.__sqlrepr__: the ORDER BY statement has an else branch')

    def mentions(node):
        return sum(1 for n in ast.walk(node) if isinstance(n, ast.Constant) and n.value in ('orderBy', 'reversed'))
    if mentions(fn) != mentions(st):
        raise ExtractError("Select.__sqlrepr__: 'orderBy' / 'reversed' are used outside the ORDER BY statement")
    names = {n.id for n in ast.walk(st) if isinstance(n, ast.Name) and isinstance(n.ctx, ast.Store)}
    if not names <= {'orderBy', 'reverser', 'select', '_x'}:
        raise ExtractError('Select.__sqlrepr__: the ORDER BY statement binds %s' % sorted(names))
    a = [x.arg for x in fn.args.args]
    if a != ['self', 'db']:
        raise ExtractError('Select.__sqlrepr__: parameters %r' % a)
    src = 'def f(self, db, select):\n    pass\n    return select\n'
    new = ast.parse(src).body[0]
    new.body[0] = st
    new.name = '__sqlrepr__#orderBy'
    return new


class Fn(object):
    def __init__(self, fn, lean, where, deco):
        self.fn, self.lean, self.where = fn, lean, where
        a = fn.args
        if a.kwonlyargs or a.posonlyargs:
            self.fail('unexpected signature')
        decos = [d.id if isinstance(d, ast.Name) else '?' for d in fn.decorator_list]
        want = [deco] if deco == 'classmethod' else []
        if decos != want:
            self.fail('decorators are %r, expected %r' % (decos, want))
        self.params = [x.arg for x in a.args]
        if deco is None and self.params[:1] != ['self']:
            self.fail('first parameter is not self')
        if deco == 'classmethod' and self.params[:1] != ['cls']:
            self.fail('first parameter is not cls')
        self.npos = len(self.params)
        self.defaults = list(a.defaults)
        self.vararg = a.vararg.arg if a.vararg else None
        self.kwarg = a.kwarg.arg if a.kwarg else None
        if a.vararg:
            self.params.append(a.vararg.arg)
        if a.kwarg:
            self.params.append(a.kwarg.arg)
        self.vars = list(self.params)
        self.loops = []
        self.comps = []
        self.links = {}
        self.ntmp = 0
        body = strip_doc(fn.body)
        self._collect(body)
        self.stmts = [(self.stmt(s, True), s) for s in body]
        self.dflts = [self.expr(d) for d in self.defaults]

    def fail(self, what, n=None):
        raise ExtractError('%s: %s%s' % (self.where, what,
                                         (': ' + ast.unparse(n).split('\n')[0]) if n is not None else ''))

    # ---- names ---------------------------------------------------------------------------
    def _collect(self, stmts):
        m = self

        def bind(t):
            if isinstance(t, ast.Name):
                if t.id not in m.vars:
                    m.vars.append(t.id)
            elif isinstance(t, ast.Tuple):
                for e in t.elts:
                    if not isinstance(e, ast.Name):
                        m.fail('unpacking target outside the fragment', t)
                    bind(e)

        class V(ast.NodeVisitor):
            def visit_Assign(s, n):
                s.visit(n.value)
                for t in n.targets:
                    bind(t)

            def visit_AugAssign(s, n):
                s.visit(n.value)
                bind(n.target)

            def visit_For(s, n):
                s.visit(n.iter)
                bind(n.target)
                for b in n.body:
                    s.visit(b)

            def visit_NamedExpr(s, n):
                m.fail('walrus', n)

            def visit_ListComp(s, n):
                pass
            visit_SetComp = visit_DictComp = visit_GeneratorExp = visit_ListComp

            def visit_Lambda(s, n):
                m.fail('lambda', n)

            def visit_FunctionDef(s, n):
                if n.name not in m.vars:
                    m.vars.append(n.name)

            def visit_Global(s, n):
                m.fail('global', n)
            visit_Nonlocal = visit_Global

        v = V()
        for st in stmts:
            v.visit(st)
        # comprehension variables: their own scope in Python 3; numbered after the locals, names must be fresh
        for st in stmts:
            for n in ast.walk(st):
                if isinstance(n, (ast.SetComp, ast.DictComp, ast.GeneratorExp)):
                    m.fail('comprehension outside the fragment', n)
                if isinstance(n, ast.ListComp):
                    if len(n.generators) != 1 or n.generators[0].is_async or len(n.generators[0].ifs) > 1:
                        m.fail('comprehension outside the fragment', n)
                    t = n.generators[0].target
                    names = [t] if isinstance(t, ast.Name) else list(getattr(t, 'elts', [None]))
                    for e in names:
                        if not isinstance(e, ast.Name):
                            m.fail('comprehension target outside the fragment', n)
                        if e.id in m.vars:
                            m.fail('comprehension variable %s is also a local' % e.id, n)
                    for e in names:
                        m.vars.append(e.id)

    def var(self, name, n=None):
        if name not in self.vars:
            self.fail('unknown name %s' % name, n)
        return self.vars.index(name)

    def tmp(self):
        name = '$pop%d' % self.ntmp
        self.ntmp += 1
        self.vars.append(name)
        return self.vars.index(name)

    def link(self, y):
        if y in self.links:
            x, a = self.links[y]
            return '(some (%d, %s))' % (x, lean_str(a))
        return 'none'

    # ---- expressions ---------------------------------------------------------------------
    def exprs(self, es):
        out = '.nil'
        for e in reversed(es):
            out = '(.cons %s %s)' % (self.expr(e), out)
        return out

    def gname(self, n):
        """the module-level name an expression denotes, or None"""
        if isinstance(n, ast.Name) and n.id not in self.vars:
            return n.id
        if isinstance(n, ast.Attribute) and isinstance(n.value, ast.Name) and n.value.id not in self.vars:
            if n.value.id in QUALIFIERS:
                return n.attr
            return '%s.%s' % (n.value.id, n.attr)
        return None

    def classes(self, n):
        if isinstance(n, ast.Tuple):
            out = []
            for e in n.elts:
                out += self.classes(e)
            return out
        g = self.gname(n)
        if g is None:
            self.fail('isinstance against something that is not a module-level class', n)
        return [g]

    def expr(self, n):
        m = self
        if isinstance(n, ast.Constant):
            v = n.value
            if v is None:
                return '.none'
            if v is True:
                return '.true'
            if v is False:
                return '.false'
            if isinstance(v, int):
                return '(.int %d)' % v
            if isinstance(v, str):
                return '(.str %s)' % lean_chars(v)
            m.fail('constant outside the fragment', n)
        if isinstance(n, ast.UnaryOp) and isinstance(n.op, ast.USub) and isinstance(n.operand, ast.Constant) \
                and isinstance(n.operand.value, int) and not isinstance(n.operand.value, bool):
            return '(.int (%d))' % (-n.operand.value)
        if isinstance(n, ast.Name):
            if n.id in m.vars:
                return '(.var %d)' % m.var(n.id)
            return '(.glob %s)' % lean_str(n.id)
        if isinstance(n, ast.Attribute):
            g = m.gname(n)
            if g is not None:
                return '(.glob %s)' % lean_str(g)
            return '(.attr %s %s)' % (m.expr(n.value), lean_str(n.attr))
        if isinstance(n, ast.Tuple):
            return '(.tuple %s)' % m.exprs(n.elts)
        if isinstance(n, ast.List):
            return '(.list %s)' % m.exprs(n.elts)
        if isinstance(n, ast.Dict):
            if n.keys:
                m.fail('dict display outside the fragment', n)
            return '.emptyDict'
        if isinstance(n, ast.UnaryOp) and isinstance(n.op, ast.Not):
            return '(.not %s)' % m.expr(n.operand)
        if isinstance(n, ast.BoolOp):
            op = '.and' if isinstance(n.op, ast.And) else '.or'
            out = m.expr(n.values[-1])
            for v in reversed(n.values[:-1]):
                out = '(%s %s %s)' % (op, m.expr(v), out)
            return out
        if isinstance(n, ast.IfExp):
            return '(.ifExp %s %s %s)' % (m.expr(n.test), m.expr(n.body), m.expr(n.orelse))
        if isinstance(n, ast.Compare):
            if len(n.ops) != 1:
                m.fail('chained comparison', n)
            op, a, b = n.ops[0], n.left, n.comparators[0]
            if isinstance(op, (ast.Is, ast.IsNot)):
                pos = isinstance(op, ast.Is)
                if isinstance(b, ast.Constant) and b.value is None:
                    return '(%s %s)' % ('.isNone' if pos else '.isNotNone', m.expr(a))
                g = m.gname(b)
                if g is None:
                    m.fail('`is` against something other than None or a module-level object', n)
                return '(%s %s %s)' % ('.isGlob' if pos else '.isNotGlob', m.expr(a), lean_str(g))
            if type(op) not in CMP:
                m.fail('comparison outside the fragment', n)
            return '(.cmp %s %s %s)' % (CMP[type(op)], m.expr(a), m.expr(b))
        if isinstance(n, ast.BinOp):
            if isinstance(n.op, ast.Add):
                return '(.add %s %s)' % (m.expr(n.left), m.expr(n.right))
            if isinstance(n.op, ast.Sub):
                return '(.sub %s %s)' % (m.expr(n.left), m.expr(n.right))
            if isinstance(n.op, ast.Mod):
                return '(.mod %s %s)' % (m.expr(n.left), m.expr(n.right))
            m.fail('operator outside the fragment', n)
        if isinstance(n, ast.Subscript):
            s = n.slice
            if isinstance(s, ast.Slice):
                if s.step is not None:
                    m.fail('slice with a step', n)
                if s.lower is not None and s.upper is None:
                    return '(.sliceFrom %s %s)' % (m.expr(n.value), m.expr(s.lower))
                if s.upper is not None and s.lower is None:
                    return '(.sliceTo %s %s)' % (m.expr(n.value), m.expr(s.upper))
                m.fail('slice outside the fragment', n)
            return '(.index %s %s)' % (m.expr(n.value), m.expr(s))
        if isinstance(n, ast.ListComp):
            g = n.generators[0]
            k = len(m.comps)
            m.comps.append(None)
            cond = m.expr(g.ifs[0]) if g.ifs else '.true'
            elt = m.expr(n.elt)
            m.comps[k] = (cond, elt, n)
            return '(.comp %s %s %s_comp%d_c %s_comp%d_e)' % (m.target(g.target, n), m.expr(g.iter), m.lean, k, m.lean, k)
        if isinstance(n, ast.Call):
            return m.call(n)
        m.fail('expression outside the fragment', n)

    def call(self, n):
        m = self
        f = n.func
        stars = [a for a in n.args if isinstance(a, ast.Starred)]
        plain = [a for a in n.args if not isinstance(a, ast.Starred)]
        dstars = [k for k in n.keywords if k.arg is None]
        kws = [k for k in n.keywords if k.arg is not None]
        if len(stars) > 1 or (stars and n.args[-1] is not stars[0]):
            m.fail('star arguments outside the fragment', n)
        if len(dstars) > 1 or (dstars and n.keywords[-1] is not dstars[0]):
            m.fail('double-star arguments outside the fragment', n)
        pstar = m.expr(stars[0].value) if stars else '(.tuple .nil)'
        kstar = m.expr(dstars[0].value) if dstars else '.emptyDict'
        kwn = '[%s]' % ', '.join(lean_chars(k.arg) for k in kws)
        kwv = m.exprs([k.value for k in kws])
        if isinstance(f, ast.Name) and f.id in m.vars:
            if stars or n.keywords:
                m.fail('call of a local outside the fragment', n)
            return '(.callVal %s %s)' % (m.expr(f), m.exprs(plain))
        g = m.gname(f)
        if g is not None:
            if g == 'isinstance':
                if len(n.args) != 2 or n.keywords or stars:
                    m.fail('isinstance outside the fragment', n)
                return '(.isinstance %s [%s])' % (m.expr(n.args[0]), ', '.join(lean_str(c) for c in m.classes(n.args[1])))
            if g == 'getattr':
                if len(n.args) != 2 or n.keywords or stars:
                    m.fail('getattr outside the fragment', n)
                return '(.getattrDyn %s %s)' % (m.expr(n.args[0]), m.expr(n.args[1]))
            if g == 'list' and len(n.args) == 1 and not n.keywords and isinstance(n.args[0], ast.Call) \
                    and m.gname(n.args[0].func) == 'map':
                mp = n.args[0]
                if len(mp.args) != 2 or mp.keywords or not isinstance(mp.args[0], ast.Attribute) \
                        or m.gname(mp.args[0]) is not None:
                    m.fail('map outside the fragment', n)
                return '(.mapMethod %s %s %s)' % (m.expr(mp.args[0].value), lean_str(mp.args[0].attr), m.expr(mp.args[1]))
            if g == 'map':
                m.fail('map outside list(map(o.m, e))', n)
            if dstars:
                m.fail('double-star arguments of a function call', n)
            return '(.call %s %s %s %s %s)' % (lean_str(g), m.exprs(plain), pstar, kwn, kwv)
        if isinstance(f, ast.Attribute):
            if f.attr == 'pop' and isinstance(f.value, ast.Name) and f.value.id in m.vars:
                m.fail('pop in a position the translator cannot hoist', n)
            if f.attr in MUTATORS and isinstance(f.value, ast.Name) and f.value.id in m.vars:
                m.fail('mutating method call used as an expression', n)
            return '(.method %s %s %s %s %s %s %s)' % (m.expr(f.value), lean_str(f.attr), m.exprs(plain), pstar, kwn, kwv,
                                                     kstar)
        m.fail('call outside the fragment', n)

    # ---- statements ----------------------------------------------------------------------
    def target(self, t, n):
        if isinstance(t, ast.Name):
            return '(.one %d)' % self.var(t.id)
        if isinstance(t, ast.Tuple) and all(isinstance(e, ast.Name) for e in t.elts):
            return '(.tup [%s])' % ', '.join(str(self.var(e.id)) for e in t.elts)
        self.fail('assignment target outside the fragment', n)

    def block(self, stmts):
        out = '.nil'
        terms = [self.stmt(s, False) for s in stmts]
        for t in reversed(terms):
            out = '(.cons %s %s)' % (t, out)
        return out

    def _is_pop(self, n):
        return isinstance(n, ast.Call) and isinstance(n.func, ast.Attribute) and n.func.attr == 'pop' \
            and isinstance(n.func.value, ast.Name) and n.func.value.id in self.vars

    def _pop_stmt(self, t, call):
        m = self
        if call.keywords or not (1 <= len(call.args) <= 2) or any(isinstance(a, ast.Starred) for a in call.args):
            m.fail('pop outside the fragment', call)
        x = call.func.value.id
        d = m.expr(call.args[1]) if len(call.args) == 2 else '.none'
        return '(.pop %d %d %s %s %s %s)' % (t, m.var(x), m.expr(call.args[0]), d,
                                             'true' if len(call.args) == 2 else 'false', m.link(x))

    def _hoist(self, n):
        """(prefix statement or None, rewritten node): the single nested `x.pop(k)` of a statement, if any"""
        m = self
        pops = [c for c in ast.walk(n) if m._is_pop(c)]
        if not pops:
            return None, n
        if len(pops) > 1:
            m.fail('more than one pop in a statement', n)
        pop = pops[0]
        # everything else must be call-free, except the outermost mutator call of an expression statement
        outer = n.value if isinstance(n, ast.Expr) else None
        for c in ast.walk(n):
            if isinstance(c, ast.Call) and c is not pop and c is not outer and not any(c is s for s in ast.walk(pop)):
                m.fail('pop next to another call: evaluation order', n)
            if isinstance(c, (ast.ListComp, ast.IfExp, ast.BoolOp)) and not any(c is s for s in ast.walk(pop)):
                m.fail('pop next to a conditional expression: evaluation order', n)
        t = m.tmp()
        pre = m._pop_stmt(t, pop)

        import copy
        # transform a deep copy, locating the pop by position
        idx = [i for i, c in enumerate(ast.walk(n)) if c is pop][0]
        n2 = copy.deepcopy(n)
        pop2 = list(ast.walk(n2))[idx]

        class Sub2(ast.NodeTransformer):
            def visit_Call(s, c):
                if c is pop2:
                    return ast.copy_location(ast.Name(id=m.vars[t], ctx=ast.Load()), c)
                return s.generic_visit(c)
        n2 = Sub2().visit(n2)
        return pre, n2

    def stmt(self, n, top):
        m = self
        if isinstance(n, ast.Assign) and len(n.targets) == 1 and isinstance(n.targets[0], ast.Name) and m._is_pop(n.value):
            m._unlink(n.targets[0].id, n)
            return m._pop_stmt(m.var(n.targets[0].id), n.value)
        if isinstance(n, (ast.Assign, ast.Expr, ast.AugAssign)):
            pre, n2 = m._hoist(n)
            if pre is not None:
                return '(.seq %s %s)' % (pre, m.stmt1(n2, top))
        return m.stmt1(n, top)

    def _unlink(self, name, n):
        if name in self.links:
            self.fail('the linked local %s is rebound' % name, n)
        for y, (x, a) in self.links.items():
            if x == self.var(name):
                self.fail('the object local %s with a linked attribute is rebound' % name, n)

    def stmt1(self, n, top):
        m = self
        if isinstance(n, ast.Assign):
            if len(n.targets) != 1:
                m.fail('chained assignment', n)
            t = n.targets[0]
            if isinstance(t, ast.Subscript):
                if isinstance(t.slice, ast.Slice):
                    m.fail('slice assignment', n)
                if isinstance(t.value, ast.Name) and t.value.id in m.vars:
                    return '(.setItem %d %s %s %s)' % (m.var(t.value.id), m.expr(t.slice), m.expr(n.value),
                                                       m.link(t.value.id))
                if isinstance(t.value, ast.Attribute) and isinstance(t.value.value, ast.Name) \
                        and t.value.value.id in m.vars:
                    x = m.var(t.value.value.id)
                    if (x, t.value.attr) in m.links.values():
                        m.fail('item assignment through a linked attribute', n)
                    return '(.setAttrItem %d %s %s %s)' % (x, lean_str(t.value.attr), m.expr(t.slice), m.expr(n.value))
                m.fail('item assignment outside the fragment', n)
            if isinstance(t, ast.Attribute):
                if not (isinstance(t.value, ast.Name) and t.value.id in m.vars):
                    m.fail('attribute assignment outside the fragment', n)
                x = m.var(t.value.id)
                if (x, t.attr) in m.links.values():
                    m.fail('a linked attribute is assigned again', n)
                out = '(.setAttr %d %s %s)' % (x, lean_str(t.attr), m.expr(n.value))
                if isinstance(n.value, ast.Name) and n.value.id in m.vars:
                    # the attribute now shares the value of the local: link it when the local is mutated later
                    if top:
                        if n.value.id in m.links:
                            m.fail('a local shared with two attributes', n)
                        m.links[n.value.id] = (x, t.attr)
                    else:
                        m.pending_alias = getattr(m, 'pending_alias', []) + [(n.value.id, n)]
                return out
            for e in ([t] if isinstance(t, ast.Name) else list(getattr(t, 'elts', []))):
                if isinstance(e, ast.Name):
                    m._unlink(e.id, n)
            return '(.assign %s %s)' % (m.target(t, n), m.expr(n.value))
        if isinstance(n, ast.AugAssign):
            if not (isinstance(n.op, (ast.Add, ast.Sub)) and isinstance(n.target, ast.Name)):
                m.fail('augmented assignment outside the fragment', n)
            m._unlink(n.target.id, n)
            x = m.var(n.target.id)
            op = '.add' if isinstance(n.op, ast.Add) else '.sub'
            return '(.assign (.one %d) (%s (.var %d) %s))' % (x, op, x, m.expr(n.value))
        if isinstance(n, ast.Delete):
            if len(n.targets) != 1 or not (isinstance(n.targets[0], ast.Subscript)
                                           and isinstance(n.targets[0].value, ast.Name)
                                           and n.targets[0].value.id in m.vars
                                           and not isinstance(n.targets[0].slice, ast.Slice)):
                m.fail('del outside the fragment', n)
            t = n.targets[0]
            return '(.delItem %d %s %s)' % (m.var(t.value.id), m.expr(t.slice), m.link(t.value.id))
        if isinstance(n, ast.If):
            return '(.ite %s %s %s)' % (m.expr(n.test), m.block(n.body), m.block(n.orelse))
        if isinstance(n, ast.For):
            if n.orelse:
                m.fail('for/else', n)
            for sub in ast.walk(n):
                if isinstance(sub, (ast.Break, ast.Continue)):
                    m.fail('break / continue', n)
            t = m.target(n.target, n)
            for e in ([n.target] if isinstance(n.target, ast.Name) else n.target.elts):
                m._unlink(e.id, n)
            it = m.expr(n.iter)
            k = len(m.loops)
            m.loops.append(None)
            body = m.block(n.body)
            m.loops[k] = (body, n)
            return '(.for %s %s %s_for%d)' % (t, it, m.lean, k)
        if isinstance(n, ast.Assert):
            return '(.assert %s)' % m.expr(n.test)
        if isinstance(n, ast.Raise):
            if n.cause is not None or n.exc is None:
                m.fail('raise outside the fragment', n)
            c = n.exc.func if isinstance(n.exc, ast.Call) else n.exc
            g = m.gname(c)
            if g not in EXC:
                m.fail('raise of an exception class outside the fragment', n)
            return '(.raise %s)' % EXC[g]
        if isinstance(n, ast.Return):
            return '(.ret %s)' % (m.expr(n.value) if n.value is not None else '.none')
        if isinstance(n, ast.Expr):
            v = n.value
            if isinstance(v, ast.Call) and isinstance(v.func, ast.Attribute) and v.func.attr in MUTATORS \
                    and isinstance(v.func.value, ast.Name) and v.func.value.id in m.vars:
                if v.keywords or any(isinstance(a, ast.Starred) for a in v.args):
                    m.fail('mutating call outside the fragment', n)
                x = v.func.value.id
                return '(.mutate %d %s %s %s)' % (m.var(x), lean_str(v.func.attr), m.exprs(v.args), m.link(x))
            return '(.expr %s)' % m.expr(v)
        if isinstance(n, ast.Pass):
            return '.pass'
        if isinstance(n, ast.ImportFrom):
            if n.level == 1 and n.module is None and [a.name for a in n.names] == ['main'] and not n.names[0].asname:
                return '.pass'
            m.fail('import outside the fragment', n)
        if isinstance(n, ast.FunctionDef):
            a = n.args
            ok = (len(a.args) == 1 and not a.vararg and not a.kwarg and not a.defaults and not a.kwonlyargs
                  and not n.decorator_list and len(n.body) == 1 and isinstance(n.body[0], ast.Return)
                  and isinstance(n.body[0].value, ast.Name) and n.body[0].value.id == a.args[0].arg)
            if not ok:
                m.fail('nested function other than the identity', n)
            m._unlink(n.name, n)
            return '(.assign (.one %d) .ident)' % m.var(n.name)
        m.fail('statement outside the fragment', n)

    def check_aliases(self):
        """an `x.a = y` below the top level: refuse when `y` is mutated anywhere in the function"""
        mutated = set()
        for n in ast.walk(self.fn):
            if isinstance(n, ast.Call) and isinstance(n.func, ast.Attribute) and isinstance(n.func.value, ast.Name) \
                    and n.func.attr in MUTATORS + ('pop',):
                mutated.add(n.func.value.id)
            if isinstance(n, (ast.Assign, ast.Delete)):
                for t in n.targets:
                    if isinstance(t, ast.Subscript) and isinstance(t.value, ast.Name):
                        mutated.add(t.value.id)
        for y, n in getattr(self, 'pending_alias', []):
            if y in mutated:
                self.fail('the local %s is stored in an attribute inside a branch and mutated' % y, n)


def _doc(n):
    line = ast.unparse(n).split('\n')[0]
    return line.replace('-/', '- /').replace('/-', '/ -')


def extract(repo):
    out = [HEADER % 'pyquery', 'import SqlObjVerif.Model.PyQuery', '',
           'namespace SqlObjVerif.PyQ.Extracted', 'open SqlObjVerif.PyQ', '']
    trees = {}
    for rel, cname, pyname, lean, deco in FUNCTIONS:
        if rel not in trees:
            trees[rel] = parse(repo, rel)
        tree = trees[rel]
        if cname is None:
            fn = find_func(tree, pyname)
        elif pyname.endswith('#orderBy'):
            fn = _order_part(find_class(tree, cname))
        else:
            fn = find_func(find_class(tree, cname), pyname)
        where = '%s.%s' % (cname, pyname) if cname else pyname
        f = Fn(fn, lean, where, deco)
        f.check_aliases()
        out.append('/-! ### `%s(%s)`: locals %s -/' % (
            where, ', '.join(f.params), ', '.join('%s=%d' % (v, i) for i, v in enumerate(f.vars))))
        out.append('')
        for k, (cond, elt, node) in enumerate(f.comps):
            out.append('/-- condition / element of `%s` -/' % _doc(node))
            out.append('def %s_comp%d_c : Expr :=\n  %s' % (lean, k, cond))
            out.append('def %s_comp%d_e : Expr :=\n  %s' % (lean, k, elt))
            out.append('')
        for k, (body, node) in reversed(list(enumerate(f.loops))):
            out.append('/-- body of `%s` -/' % _doc(node))
            out.append('def %s_for%d : Block :=\n  %s' % (lean, k, body))
            out.append('')
        for k, (term, node) in enumerate(f.stmts):
            out.append('/-- `%s` -/' % _doc(node))
            out.append('def %s_s%d : Stmt :=\n  %s' % (lean, k, term))
            out.append('')
        blk = '.nil'
        for k in reversed(range(len(f.stmts))):
            blk = '(.cons %s_s%d %s)' % (lean, k, blk)
        out.append('def %s : Block :=\n  %s' % (lean, blk))
        out.append('')
        out.append('def %s_params : List String := [%s]' % (lean, ', '.join(lean_str(p) for p in f.params)))
        out.append('/-- default values of the last parameters before `*args` / `**kw` -/')
        out.append('def %s_defaults : List Expr := [%s]' % (lean, ', '.join(f.dflts)))
        out.append('')
    out.append('end SqlObjVerif.PyQ.Extracted')
    return '\n'.join(out) + '\n'
