"""TRANSLATOR: the expression builders of sqlbuilder.py and the leaf converters of converters.py -> PyExpr blocks.

Every function listed in METHODS / FUNCTIONS / CONVERTERS is translated statement by statement into the deep embedding
of `lean/SqlObjVerif/Model/PyExpr.lean`; anything outside the fragment raises ExtractError.  Besides the programs the
file carries the tables the dispatch of the interpreter's instantiation needs, all read from the AST:
  * `classBases`   : every class statement of sqlbuilder.py with its base-class names;
  * `classNames`   : per class, every name its body binds (methods, aliases, attributes) - method resolution must know
                     when an untranslated class of the MRO defines the method;
  * `classAttrs`   : string-valued class attributes (`INSubquery.op`);
  * `methodTable`  : (class, method) -> translated program (an alias `a = b` in a class body points to b's program);
  * `funcTable`    : module function -> translated program (and whether it takes `*args`);
  * `converterTable`: the `registerConverter(<type>, <function>)` statements of converters.py.
Conventions of the translation:
  * locals are numbered in order of first binding, the parameters (including `self` and `*ops`) first: a
    behaviour-preserving rename of a local gives the same term;
  * every top-level statement of a function becomes its own definition `<f>_s<k>`, the function is the block of these;
  * a called NAME must be a module-level class / function / imported name that the module binds exactly once (or one
    of the builtins `isinstance`, `int`, `repr`, not rebound by the module); a called local is refused;
  * `C.__init__(self, ...)` as a statement is `clsInit` (the new state of `self` comes back from the interface);
    `C.m(...)` with C a module-level class is `clsCall`;
  * `self.a = e` is allowed in an `__init__` on the first parameter only, and `self` may otherwise occur only as
    `self.<attr>` or as the first argument of a `C.__init__` (no alias of the object under construction);
    `x.a[k] = v` is allowed for a local bound once to a call result and not read as a bare name before the mutation;
  * a function-level `from .m import N` binds N as a class name usable in `isinstance` only.
"""
import ast
from . import ExtractError, parse, find_class, find_func, strip_doc, HEADER, lean_str, lean_nat_list

TARGET = 'PyExpr'

SB = 'sqlobject/sqlbuilder.py'
CV = 'sqlobject/converters.py'

OVERLOADS = ['__add__', '__radd__', '__sub__', '__rsub__', '__mul__', '__rmul__', '__div__', '__rdiv__',
             '__truediv__', '__rtruediv__', '__pos__', '__neg__', '__mod__', '__lt__', '__le__', '__gt__', '__ge__',
             '__eq__', '__ne__', '__and__', '__rand__', '__or__', '__ror__', '__invert__']

# (class, python name)
METHODS = ([('SQLOp', '__init__'), ('SQLOp', '__sqlrepr__'), ('SQLModulo', '__init__'), ('SQLModulo', '__sqlrepr__'),
            ('SQLCall', '__init__'), ('SQLCall', '__sqlrepr__'), ('SQLPrefix', '__init__'), ('SQLPrefix', '__sqlrepr__'),
            ('SQLConstant', '__init__'), ('SQLConstant', '__sqlrepr__'), ('SQLTrueClauseClass', '__sqlrepr__'),
            ('Field', '__init__'), ('Field', '__sqlrepr__'),
            ('INSubquery', '__init__'), ('INSubquery', '__sqlrepr__')]
           + [('SQLExpression', m) for m in OVERLOADS]
           + [('SQLObjectField', '__eq__'), ('SQLObjectField', '__ne__')])
FUNCTIONS = ['AND', 'OR', 'NOT', '_IN', 'IN', 'NOTIN', 'ISNULL', 'ISNOTNULL']
CONVERTERS = ['IntConverter', 'FloatConverter', 'NoneConverter', 'SequenceConverter']
BUILTINS = ('isinstance', 'int', 'repr')
CMP = {ast.Eq: '.eq', ast.NotEq: '.ne'}


def lean_name(cls, name):
    n = name.strip('_') if name.startswith('__') and name.endswith('__') else name
    return '%s_%s' % (cls, n) if cls else 'f_%s' % n


class Module(object):
    """module-level bindings of a source file"""

    def __init__(self, repo, rel):
        self.rel = rel
        self.tree = parse(repo, rel)
        self.classes = {}
        self.functions = {}
        self.count = {}
        self.imported = set()

        def bind(n):
            self.count[n] = self.count.get(n, 0) + 1

        def scan(stmts):
            for st in stmts:
                if isinstance(st, ast.ClassDef):
                    bind(st.name)
                    self.classes[st.name] = st
                elif isinstance(st, ast.FunctionDef):
                    bind(st.name)
                    self.functions[st.name] = st
                elif isinstance(st, (ast.Import, ast.ImportFrom)):
                    for a in st.names:
                        n = (a.asname or a.name).split('.')[0]
                        bind(n)
                        self.imported.add(n)
                elif isinstance(st, (ast.Assign, ast.AugAssign, ast.AnnAssign)):
                    ts = st.targets if isinstance(st, ast.Assign) else [st.target]
                    for t in ts:
                        for n in ast.walk(t):
                            if isinstance(n, ast.Name):
                                bind(n.id)
                elif isinstance(st, (ast.If, ast.Try, ast.With, ast.For, ast.While)):
                    for field in ('body', 'orelse', 'finalbody'):
                        scan(getattr(st, field, []) or [])
                    for h in getattr(st, 'handlers', []) or []:
                        scan(h.body)
        scan(self.tree.body)
        for node in ast.walk(self.tree):
            if isinstance(node, ast.Global):
                raise ExtractError('%s: global statement' % rel)

    def once(self, name):
        return self.count.get(name, 0) == 1


class Fn(object):
    def __init__(self, mod, fn, lean, where, is_method):
        self.mod, self.fn, self.lean, self.where = mod, fn, lean, where
        a = fn.args
        if a.kwonlyargs or a.posonlyargs or a.kwarg or a.defaults:
            self.fail('unexpected signature')
        if fn.decorator_list:
            self.fail('decorated')
        self.params = [x.arg for x in a.args]
        self.vararg = a.vararg is not None
        if self.vararg:
            if self.params:
                self.fail('positional parameters before *args')
            self.params = [a.vararg.arg]
        if is_method and self.params[:1] != ['self']:
            self.fail('first parameter is not self')
        self.is_init = is_method and fn.name == '__init__'
        self.vars = list(self.params)
        self.local_classes = set()
        body = strip_doc(fn.body)
        self._collect(body)
        self._alias_checks(body)
        self.stmts = [(self.stmt(s), s) for s in body]

    def fail(self, what, n=None):
        raise ExtractError('%s: %s%s' % (self.where, what,
                                         (': ' + ast.unparse(n).split('\n')[0]) if n is not None else ''))

    # ---- names ---------------------------------------------------------------------------
    def _collect(self, stmts):
        m = self

        def bind(t):
            if isinstance(t, ast.Name):
                if t.id not in m.vars:
                    m.vars.append(t.id)
            elif isinstance(t, ast.Tuple):
                for e in t.elts:
                    if not isinstance(e, ast.Name):
                        m.fail('unpacking target outside the fragment', t)
                    bind(e)

        class V(ast.NodeVisitor):
            def visit_Assign(s, n):
                s.visit(n.value)
                for t in n.targets:
                    bind(t)

            def visit_AugAssign(s, n):
                m.fail('augmented assignment', n)

            def visit_For(s, n):
                m.fail('for loop', n)
            visit_While = visit_Try = visit_With = visit_For

            def visit_ImportFrom(s, n):
                for a in n.names:
                    if a.asname:
                        m.fail('import ... as', n)
                    m.local_classes.add(a.name)

            def visit_Import(s, n):
                m.fail('import', n)

            def visit_NamedExpr(s, n):
                m.fail('walrus', n)

            def visit_ListComp(s, n):
                if len(n.generators) != 1 or n.generators[0].ifs or n.generators[0].is_async \
                        or not isinstance(n.generators[0].target, ast.Name):
                    m.fail('comprehension outside the fragment', n)
                s.visit(n.generators[0].iter)
                bind(n.generators[0].target)
                s.visit(n.elt)

            def visit_SetComp(s, n):
                m.fail('comprehension', n)
            visit_DictComp = visit_GeneratorExp = visit_SetComp

            def visit_Lambda(s, n):
                m.fail('lambda', n)

            def visit_FunctionDef(s, n):
                m.fail('nested function', n)
            visit_ClassDef = visit_FunctionDef

            def visit_Global(s, n):
                m.fail('global', n)
            visit_Nonlocal = visit_Global

        v = V()
        for st in stmts:
            v.visit(st)
        for c in m.local_classes:
            if c in m.vars:
                m.fail('imported name %s is also a local' % c)

    def _alias_checks(self, body):
        m = self
        mod = ast.Module(body=body, type_ignores=[])
        parents = {}
        for n in ast.walk(mod):
            for c in ast.iter_child_nodes(n):
                parents[c] = n
        attr_set, item_set = {}, {}
        for n in ast.walk(mod):
            if isinstance(n, ast.Assign):
                for t in n.targets:
                    if isinstance(t, ast.Attribute):
                        if not isinstance(t.value, ast.Name):
                            m.fail('attribute assignment outside the fragment', n)
                        attr_set.setdefault(t.value.id, []).append(n)
                    elif isinstance(t, ast.Subscript):
                        if not (isinstance(t.value, ast.Attribute) and isinstance(t.value.value, ast.Name)):
                            m.fail('item assignment outside the fragment', n)
                        item_set.setdefault(t.value.value.id, []).append(n)
        for x in attr_set:
            if not (m.is_init and x == 'self'):
                m.fail('attribute assignment to %s outside an __init__ on self' % x)
        if m.is_init:
            for n in ast.walk(mod):
                if isinstance(n, ast.Name) and n.id == 'self':
                    p = parents[n]
                    ok = (isinstance(p, ast.Attribute) and p.value is n) or \
                         (isinstance(p, ast.Call) and p.args and p.args[0] is n and isinstance(p.func, ast.Attribute)
                          and p.func.attr == '__init__' and isinstance(p.func.value, ast.Name)
                          and p.func.value.id not in m.vars)
                    if not ok:
                        m.fail('the object under construction may get an alias', p)
        for x, sets in item_set.items():
            if x in m.params:
                m.fail('item assignment through the parameter %s (the caller holds an alias)' % x)
            binds = [n for n in ast.walk(mod) if isinstance(n, ast.Assign)
                     and any(isinstance(t, ast.Name) and t.id == x for t in n.targets)]
            if len(binds) != 1 or not isinstance(binds[0].value, ast.Call):
                m.fail('the mutated local %s is not bound once to a call result' % x)
            last = max(s.lineno for s in sets)
            for n in ast.walk(mod):
                if isinstance(n, ast.Name) and n.id == x and isinstance(n.ctx, ast.Load):
                    p = parents[n]
                    if isinstance(p, ast.Attribute) and p.value is n:
                        continue
                    if n.lineno <= last:
                        m.fail('the mutated local %s may have an alias' % x, p)

    def var(self, name, n=None):
        if name not in self.vars:
            self.fail('unknown name %s' % name, n)
        return self.vars.index(name)

    def global_name(self, name, n):
        """a module-level class / function / imported name, bound exactly once"""
        m = self
        if name in m.vars or name in m.local_classes:
            m.fail('called name is a local', n)
        if name in BUILTINS:
            if m.mod.count.get(name, 0):
                m.fail('builtin %s is rebound by the module' % name, n)
            return name
        if not m.mod.once(name):
            m.fail('name %s is not bound exactly once at module level' % name, n)
        return name

    def class_name(self, node, n):
        m = self
        if not isinstance(node, ast.Name):
            m.fail('class expression outside the fragment', n)
        if node.id in m.local_classes:
            return node.id
        if node.id in m.vars:
            m.fail('class is a local', n)
        if node.id in ('tuple', 'list', 'str', 'int', 'float', 'bool', 'dict'):
            if m.mod.count.get(node.id, 0):
                m.fail('builtin type %s is rebound by the module' % node.id, n)
            return node.id
        if not m.mod.once(node.id):
            m.fail('class %s is not bound exactly once at module level' % node.id, n)
        return node.id

    # ---- expressions ---------------------------------------------------------------------
    def exprs(self, es):
        out = '.nil'
        for e in reversed(es):
            out = '(.cons %s %s)' % (self.expr(e), out)
        return out

    def expr(self, n):
        m = self
        if isinstance(n, ast.Constant):
            v = n.value
            if v is None:
                return '.none'
            if v is True:
                return '.true'
            if v is False:
                return '.false'
            if isinstance(v, int):
                return '(.int %d)' % v
            if isinstance(v, str):
                return '(.str %s)' % lean_nat_list(v)
            m.fail('constant outside the fragment', n)
        if isinstance(n, ast.Name):
            if n.id in m.vars:
                return '(.var %d)' % m.var(n.id)
            m.fail('name outside the fragment', n)
        if isinstance(n, ast.Attribute):
            if isinstance(n.value, ast.Name) and n.value.id not in m.vars:
                m.fail('attribute of a global', n)
            return '(.attr %s %s)' % (m.expr(n.value), lean_str(n.attr))
        if isinstance(n, ast.Tuple):
            return '(.tuple %s)' % m.exprs(n.elts)
        if isinstance(n, ast.List):
            return '(.list %s)' % m.exprs(n.elts)
        if isinstance(n, ast.UnaryOp) and isinstance(n.op, ast.Not):
            return '(.not %s)' % m.expr(n.operand)
        if isinstance(n, ast.BoolOp):
            op = '.and' if isinstance(n.op, ast.And) else '.or'
            out = m.expr(n.values[-1])
            for v in reversed(n.values[:-1]):
                out = '(%s %s %s)' % (op, m.expr(v), out)
            return out
        if isinstance(n, ast.Compare):
            if len(n.ops) != 1:
                m.fail('chained comparison', n)
            op, a, b = n.ops[0], n.left, n.comparators[0]
            if isinstance(op, (ast.Is, ast.IsNot)):
                if not (isinstance(b, ast.Constant) and b.value is None):
                    m.fail('`is` against something other than None', n)
                return '(%s %s)' % ('.isNone' if isinstance(op, ast.Is) else '.isNotNone', m.expr(a))
            if type(op) not in CMP:
                m.fail('comparison outside the fragment', n)
            return '(.cmp %s %s %s)' % (CMP[type(op)], m.expr(a), m.expr(b))
        if isinstance(n, ast.BinOp):
            if isinstance(n.op, ast.Add):
                return '(.add %s %s)' % (m.expr(n.left), m.expr(n.right))
            if isinstance(n.op, ast.Mod):
                return '(.mod %s %s)' % (m.expr(n.left), m.expr(n.right))
            m.fail('operator outside the fragment', n)
        if isinstance(n, ast.Subscript):
            s = n.slice
            if isinstance(s, ast.Slice):
                if s.step is not None or s.upper is not None or s.lower is None:
                    m.fail('slice outside the fragment', n)
                return '(.sliceFrom %s %s)' % (m.expr(n.value), m.expr(s.lower))
            return '(.index %s %s)' % (m.expr(n.value), m.expr(s))
        if isinstance(n, ast.ListComp):
            g = n.generators[0]
            return '(.comp %s %d %s)' % (m.expr(n.elt), m.var(g.target.id), m.expr(g.iter))
        if isinstance(n, ast.Call):
            return m.call(n)
        m.fail('expression outside the fragment', n)

    def call(self, n):
        m = self
        f = n.func
        if n.keywords:
            m.fail('keyword arguments', n)
        stars = [a for a in n.args if isinstance(a, ast.Starred)]
        if isinstance(f, ast.Name):
            if f.id == 'isinstance' and f.id not in m.vars:
                m.global_name(f.id, n)
                if len(n.args) != 2 or stars:
                    m.fail('isinstance outside the fragment', n)
                c = n.args[1]
                cs = c.elts if isinstance(c, ast.Tuple) else [c]
                return '(.isinstance %s [%s])' % (m.expr(n.args[0]),
                                                  ', '.join(lean_str(m.class_name(x, n)) for x in cs))
            name = m.global_name(f.id, n)
            if stars:
                if len(n.args) != 1:
                    m.fail('star arguments', n)
                return '(.callStar %s %s)' % (lean_str(name), m.expr(stars[0].value))
            return '(.call %s %s)' % (lean_str(name), m.exprs(n.args))
        if isinstance(f, ast.Attribute):
            if stars:
                m.fail('star arguments of a method call', n)
            if isinstance(f.value, ast.Name) and f.value.id not in m.vars:
                c = m.class_name(f.value, n)
                if c not in m.mod.classes:
                    m.fail('method call through something that is not a class of the module', n)
                if f.attr == '__init__':
                    m.fail('C.__init__ used as an expression', n)
                return '(.clsCall %s %s %s)' % (lean_str(c), lean_str(f.attr), m.exprs(n.args))
            return '(.method %s %s %s)' % (m.expr(f.value), lean_str(f.attr), m.exprs(n.args))
        m.fail('call outside the fragment', n)

    # ---- statements ----------------------------------------------------------------------
    def target(self, t, n):
        if isinstance(t, ast.Name):
            return '(.one %d)' % self.var(t.id)
        if isinstance(t, ast.Tuple) and all(isinstance(e, ast.Name) for e in t.elts):
            return '(.tup [%s])' % ', '.join(str(self.var(e.id)) for e in t.elts)
        self.fail('assignment target outside the fragment', n)

    def block(self, stmts):
        out = '.nil'
        for s in reversed(stmts):
            out = '(.cons %s %s)' % (self.stmt(s), out)
        return out

    def stmt(self, n):
        m = self
        if isinstance(n, ast.Assign):
            if len(n.targets) != 1:
                m.fail('chained assignment', n)
            t = n.targets[0]
            if isinstance(t, ast.Attribute):
                return '(.setAttr %d %s %s)' % (m.var(t.value.id), lean_str(t.attr), m.expr(n.value))
            if isinstance(t, ast.Subscript):
                if isinstance(t.slice, ast.Slice):
                    m.fail('slice assignment', n)
                return '(.setAttrItem %d %s %s %s)' % (m.var(t.value.value.id), lean_str(t.value.attr),
                                                      m.expr(t.slice), m.expr(n.value))
            return '(.assign %s %s)' % (m.target(t, n), m.expr(n.value))
        if isinstance(n, ast.If):
            return '(.ite %s %s %s)' % (m.expr(n.test), m.block(n.body), m.block(n.orelse))
        if isinstance(n, ast.Return):
            return '(.ret %s)' % (m.expr(n.value) if n.value is not None else '.none')
        if isinstance(n, ast.Expr):
            c = n.value
            if isinstance(c, ast.Call) and isinstance(c.func, ast.Attribute) and c.func.attr == '__init__' \
                    and isinstance(c.func.value, ast.Name) and c.func.value.id not in m.vars:
                cls = m.class_name(c.func.value, n)
                if cls not in m.mod.classes:
                    m.fail('__init__ of something that is not a class of the module', n)
                if c.keywords or not c.args or not isinstance(c.args[0], ast.Name) \
                        or any(isinstance(a, ast.Starred) for a in c.args):
                    m.fail('C.__init__ call outside the fragment', n)
                return '(.clsInit %s %d %s)' % (lean_str(cls), m.var(c.args[0].id), m.exprs(c.args[1:]))
            return '(.expr %s)' % m.expr(c)
        if isinstance(n, ast.ImportFrom):
            return '.pass'
        if isinstance(n, ast.Pass):
            return '.pass'
        m.fail('statement outside the fragment', n)


def _doc(n):
    line = ast.unparse(n).split('\n')[0]
    return line.replace('-/', '- /').replace('/-', '/ -')


def _emit(out, f, title):
    out.append('/-! ### `%s(%s%s)`: locals %s -/' % (
        title, '*' if f.vararg else '', ', '.join(f.params), ', '.join('%s=%d' % (v, i) for i, v in enumerate(f.vars))))
    out.append('')
    for k, (term, node) in enumerate(f.stmts):
        out.append('/-- `%s` -/' % _doc(node))
        out.append('def %s_s%d : Stmt :=\n  %s' % (f.lean, k, term))
        out.append('')
    blk = '.nil'
    for k in reversed(range(len(f.stmts))):
        blk = '(.cons %s_s%d %s)' % (f.lean, k, blk)
    out.append('def %s : Block :=\n  %s' % (f.lean, blk))
    out.append('')


def _class_tables(mod, out):
    bases, names, attrs = [], [], []
    for cname, c in mod.classes.items():
        if not mod.once(cname):
            raise ExtractError('%s: class %s is bound more than once' % (mod.rel, cname))
        bs = []
        for b in c.bases:
            if isinstance(b, ast.Name):
                bs.append(b.id)
            elif isinstance(b, ast.Attribute):
                bs.append(ast.unparse(b))
            else:
                raise ExtractError('class %s: base %s' % (cname, ast.unparse(b)))
        if c.keywords or c.decorator_list:
            raise ExtractError('class %s: metaclass / decorator' % cname)
        if len(bs) > 1:
            raise ExtractError('class %s: multiple inheritance (method resolution is modelled for single chains)' % cname)
        bases.append((cname, bs))
        bound = []
        for st in c.body:
            if isinstance(st, ast.FunctionDef):
                bound.append(st.name)
            elif isinstance(st, ast.Assign):
                for t in st.targets:
                    if not isinstance(t, ast.Name):
                        raise ExtractError('class %s: assignment %s' % (cname, ast.unparse(st)))
                    bound.append(t.id)
                    if isinstance(st.value, ast.Constant) and isinstance(st.value.value, str):
                        attrs.append((cname, t.id, st.value.value))
            elif isinstance(st, ast.Expr) and isinstance(st.value, ast.Constant):
                pass
            elif isinstance(st, ast.Pass):
                pass
            else:
                raise ExtractError('class %s: statement outside the fragment: %s' % (cname, ast.unparse(st).split('\n')[0]))
        names.append((cname, bound))
    out.append('/-- the class statements of sqlbuilder.py: class, base classes -/')
    out.append('def classBases : List (String × List String) :=\n  [%s]' % ',\n   '.join(
        '(%s, [%s])' % (lean_str(c), ', '.join(lean_str(b) for b in bs)) for c, bs in bases))
    out.append('')
    out.append('/-- every name a class body binds -/')
    out.append('def classNames : List (String × List String) :=\n  [%s]' % ',\n   '.join(
        '(%s, [%s])' % (lean_str(c), ', '.join(lean_str(b) for b in bs)) for c, bs in names))
    out.append('')
    out.append('/-- string-valued class attributes -/')
    out.append('def classAttrs : List (String × String × List Nat) :=\n  [%s]' % ',\n   '.join(
        '(%s, %s, %s)' % (lean_str(c), lean_str(a), lean_nat_list(v)) for c, a, v in attrs))
    out.append('')


def _converter_table(mod):
    """registerConverter(<type>, <function>) at module level (the Python 3 branch of version tests)"""
    tab = []

    def type_name(n):
        s = ast.unparse(n)
        return {'NoneType': 'NoneType'}.get(s, s)

    def scan(stmts):
        for st in stmts:
            if isinstance(st, ast.Expr) and isinstance(st.value, ast.Call) and isinstance(st.value.func, ast.Name) \
                    and st.value.func.id == 'registerConverter':
                a = st.value.args
                if len(a) != 2 or not isinstance(a[1], ast.Name):
                    raise ExtractError('converters.py: %s' % ast.unparse(st))
                tab.append((type_name(a[0]), a[1].id))
            elif isinstance(st, ast.If):
                t = ast.unparse(st.test)
                if t == 'PY2' or t == 'sys.version_info[0] < 3':
                    scan(st.orelse)
                elif t in ('NumericType', 'mxDateTimeType', 'pendulumDateTimeType', 'zopeDateTimeType',
                           "hasattr(time, 'struct_time')"):
                    pass        # optional third-party / non-leaf types: not expression leaves of the fragment
                else:
                    for sub in ast.walk(st):
                        if isinstance(sub, ast.Call) and isinstance(sub.func, ast.Name) \
                                and sub.func.id == 'registerConverter':
                            raise ExtractError('converters.py: registerConverter under an unknown test %s' % t)
    scan(mod.tree.body)
    for n in ('registerConverter', 'converters', 'lookupConverter'):
        if not mod.once(n):
            raise ExtractError('converters.py: %s is rebound' % n)
    return tab


def extract(repo):
    out = [HEADER % 'pyexpr', 'import SqlObjVerif.Model.PyExpr', '',
           'namespace SqlObjVerif.PyExpr.Extracted', 'open SqlObjVerif.PyExpr', '']
    sb = Module(repo, SB)
    cv = Module(repo, CV)
    if 'sqlrepr' not in sb.imported or not sb.once('sqlrepr'):
        raise ExtractError('sqlbuilder.py: sqlrepr is not the imported converters.sqlrepr')
    ok = False
    for st in sb.tree.body:
        if isinstance(st, ast.ImportFrom) and st.module == 'converters' and st.level == 1:
            ok = ok or any(a.name == 'sqlrepr' and a.asname is None for a in st.names)
    if not ok:
        raise ExtractError('sqlbuilder.py: sqlrepr is not imported from .converters')
    if not cv.once('sqlrepr') or 'sqlrepr' not in cv.functions:
        raise ExtractError('converters.py: sqlrepr is not defined exactly once')
    method_tab, func_tab = [], []
    for cname, pyname in METHODS:
        if cname not in sb.classes:
            raise ExtractError('class %s not found' % cname)
        fn = find_func(sb.classes[cname], pyname)
        if sum(1 for st in sb.classes[cname].body
               if (isinstance(st, ast.FunctionDef) and st.name == pyname)
               or (isinstance(st, ast.Assign) and any(isinstance(t, ast.Name) and t.id == pyname for t in st.targets))) != 1:
            raise ExtractError('%s.%s is bound more than once in the class body' % (cname, pyname))
        f = Fn(sb, fn, lean_name(cname, pyname), '%s.%s' % (cname, pyname), True)
        _emit(out, f, '%s.%s' % (cname, pyname))
        method_tab.append((cname, pyname, f.lean))
    # aliases in class bodies: `a = b` with b a translated method of the same class
    for cname, c in sb.classes.items():
        for st in c.body:
            if isinstance(st, ast.Assign) and isinstance(st.value, ast.Name):
                for t in st.targets:
                    for (c2, p2, l2) in list(method_tab):
                        if c2 == cname and p2 == st.value.id and isinstance(t, ast.Name):
                            method_tab.append((cname, t.id, l2))
    for name in FUNCTIONS:
        if not sb.once(name) or name not in sb.functions:
            raise ExtractError('function %s is not defined exactly once at module level' % name)
        f = Fn(sb, sb.functions[name], lean_name(None, name), name, False)
        _emit(out, f, name)
        func_tab.append((name, f.lean, f.vararg))
    conv_tab = _converter_table(cv)
    for name in CONVERTERS:
        if not cv.once(name) or name not in cv.functions:
            raise ExtractError('converter %s is not defined exactly once at module level' % name)
        f = Fn(cv, cv.functions[name], lean_name(None, name), name, False)
        _emit(out, f, 'converters.' + name)
        func_tab.append((name, f.lean, f.vararg))
    _class_tables(sb, out)
    out.append('/-- (class, method) -> translated program -/')
    out.append('def methodTable : List ((String × String) × Block) :=\n  [%s]' % ',\n   '.join(
        '((%s, %s), %s)' % (lean_str(c), lean_str(p), l) for c, p, l in method_tab))
    out.append('')
    out.append('/-- module function -> (translated program, takes *args) -/')
    out.append('def funcTable : List (String × Block × Bool) :=\n  [%s]' % ',\n   '.join(
        '(%s, %s, %s)' % (lean_str(n), l, 'true' if v else 'false') for n, l, v in func_tab))
    out.append('')
    out.append('/-- `registerConverter(<type>, <function>)` of converters.py (Python 3 branch) -/')
    out.append('def converterTable : List (String × String) :=\n  [%s]' % ',\n   '.join(
        '(%s, %s)' % (lean_str(t), lean_str(f)) for t, f in conv_tab))
    out.append('')
    out.append('end SqlObjVerif.PyExpr.Extracted')
    return '\n'.join(out) + '\n'
