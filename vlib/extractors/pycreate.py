"""TRANSLATOR: `SQLObject.__init__`, `_create`, `_SO_finishCreate` (sqlobject/main.py) -> PyCreate blocks.

The three methods are translated statement by statement into the deep embedding of
`lean/SqlObjVerif/Model/PyCreate.lean`; anything outside the fragment raises ExtractError (no statement is
skipped silently).  Conventions (those of pymain.py):
  * value-, list- and dict-valued locals are numbered separately, each in order of first binding, the
    parameters after `self` first; dict slot 0 is `**kw` (unused when the method has none); a
    behaviour-preserving rename of a local gives the same term; the kind of a name is tracked along the
    control flow (`setters` is a view of `_SO_createValues` and later a list);
  * `items = self._SO_createValues.items()` is a view (no statement) that may only be used while
    `_SO_createValues` has not been written (or a method of self called) since;
  * every top-level statement of a method is its own definition `<m>_s<k>`, the body of the n-th `for` loop
    (source order) is `<m>_for<n>`, the blocks of the n-th `try` are `<m>_try<n>_body/_handler/_fin`;
  * a nested `def f():` (no parameters) becomes entry `<m>_clos<n>` of the closure table (language
    `CStmt`); the names it captures must not be rebound after the `def`;
  * bound variables of `sorted(..., key=lambda x: e)` and of list comprehensions get a fresh slot;
  * messages of `raise` and the arguments of `sqlmeta.send(...)` after `self` are dropped.
"""
import ast
from . import ExtractError, parse, find_class, find_func, strip_doc, HEADER

TARGET = 'PyCreate'

METHODS = ['__init__', '_create', '_SO_finishCreate']
LEAN_NAME = {'__init__': 'init', '_create': 'create', '_SO_finishCreate': 'finishCreate'}
CALLABLE = ('_create', 'set', '_SO_finishCreate', '_init')
COLATTR = {'name': 'name', 'dbName': 'dbName', 'creationOrder': 'creationOrder', 'foreignName': 'foreignName',
           'default': 'default', 'defaultSQL': 'defaultSQL'}
EXC = {'AttributeError': 'attributeError', 'KeyError': 'keyError', 'TypeError': 'typeError'}
OPAQUE_CTORS = {
    'sqlmeta': 'self.__class__.sqlmeta(self)',
    '_SO_validatorState': 'sqlbuilder.SQLObjectState(self)',
}
CV = 'self._SO_createValues'
POSTPONED = '_postponed_local.postponed_calls'


def _is_self(n):
    return isinstance(n, ast.Name) and n.id == 'self'


def _self_attr(n):
    if isinstance(n, ast.Attribute) and _is_self(n.value):
        return n.attr
    return None


def _meta_attr(n):
    if isinstance(n, ast.Attribute) and _self_attr(n.value) == 'sqlmeta':
        return n.attr
    return None


def _plain_call(n, nargs):
    return isinstance(n, ast.Call) and not n.keywords and len(n.args) == nargs \
        and not any(isinstance(a, ast.Starred) for a in n.args)


def _const(n, v):
    return isinstance(n, ast.Constant) and n.value is v


def _str_const(n):
    return isinstance(n, ast.Constant) and isinstance(n.value, str)


def _is(n, src):
    return ast.unparse(n) == src


def lean_str(s):
    if not all(32 <= ord(c) < 127 and c not in '"\\' for c in s):
        raise ExtractError('string constant outside the fragment: %r' % s)
    return '"%s"' % s


class Closures(object):
    def __init__(self):
        self.bodies = []


class Method(object):
    def __init__(self, fn, closures):
        self.fn = fn
        self.name = fn.name
        self.ln = LEAN_NAME[fn.name]
        self.closures = closures
        a = fn.args
        if a.vararg or a.kwonlyargs or a.posonlyargs or not a.args or a.args[0].arg != 'self' or fn.decorator_list:
            raise ExtractError('unexpected signature of %s' % fn.name)
        self.params = [x.arg for x in a.args[1:]]
        nd = len(a.defaults)
        self.defaults = [None] * (len(self.params) - nd) + list(a.defaults)
        for d in self.defaults:
            if d is not None and not _const(d, None):
                raise ExtractError('%s: parameter default outside the fragment' % fn.name)
        self.vars = list(self.params)
        self.lists = []
        self.dicts = [a.kwarg.arg if a.kwarg else None]
        self.kind = {p: 'var' for p in self.params}
        if a.kwarg:
            self.kind[a.kwarg.arg] = 'dict'
        self.views = set()       # names that are a live view of self._SO_createValues.items()
        self.loops = []
        self.tries = []
        self.defs = []           # (doc, lean name, block) of the sub-blocks, inner ones first
        self.fresh = 0
        self.in_loop = 0
        self.frozen = set()      # names captured by a closure: must not be rebound any more
        body = strip_doc(fn.body)
        self.stmts = []          # top-level: list of Lean statements
        for s in body:
            self.stmts += self.stmt(s)

    def err(self, msg, n=None):
        raise ExtractError('%s: %s%s' % (self.name, msg, (': ' + ast.unparse(n).split('\n')[0]) if n is not None else ''))

    # ---- slots ----------------------------------------------------------------------------
    def slot(self, space, name):
        l = {'var': self.vars, 'list': self.lists, 'dict': self.dicts}[space]
        if name not in l:
            l.append(name)
        return l.index(name)

    def bind(self, name, kind):
        if name == 'self':
            self.err('self is rebound')
        if name in self.frozen:
            self.err('%s is captured by a nested function and rebound afterwards' % name)
        old = self.kind.get(name)
        if old is not None and old != kind and self.in_loop:
            self.err('%s changes its kind inside a loop' % name)
        self.kind[name] = kind
        self.views.discard(name)
        if kind in ('var', 'list', 'dict'):
            return self.slot(kind, name)
        return None

    def fresh_var(self, hint):
        self.fresh += 1
        name = '<%s#%d>' % (hint, self.fresh)
        return name, self.slot('var', name)

    def var(self, name, n=None):
        if self.kind.get(name) == 'var':
            return self.slot('var', name)
        self.err('name %s is not a value-kind local here' % name, n)

    def dict_slot(self, n):
        if isinstance(n, ast.Name) and self.kind.get(n.id) == 'dict':
            return self.slot('dict', n.id)
        return None

    def cv_written(self):
        self.views.clear()

    # ---- expressions ----------------------------------------------------------------------
    def expr(self, n, scope=None):
        scope = scope or {}
        if isinstance(n, ast.Name):
            if n.id in scope:
                return '(.var %d)' % scope[n.id]
            if n.id == 'self':
                return '.self'
            return '(.var %d)' % self.var(n.id, n)
        if isinstance(n, ast.Constant):
            if n.value is None:
                return '.none'
            if n.value is True:
                return '.true'
            if n.value is False:
                return '.false'
        if _meta_attr(n) == 'lazyUpdate':
            return '.lazyUpdate'
        if _is(n, 'self.__class__'):
            return '.selfClass'
        if _is(n, 'self._connection.cache'):
            return '.connCache'
        if isinstance(n, ast.Attribute) and n.attr in COLATTR and not _is_self(n.value) and _self_attr(n.value) is None \
                and _meta_attr(n.value) is None:
            return '(.colAttr %s .%s)' % (self.expr(n.value, scope), COLATTR[n.attr])
        if isinstance(n, ast.Subscript) and not isinstance(n.slice, (ast.Slice, ast.Tuple)):
            if _meta_attr(n.value) == 'columns':
                return '(.column %s)' % self.expr(n.slice, scope)
            d = self.dict_slot(n.value)
            if d is not None and _str_const(n.slice):
                return '(.strIdx %d %s)' % (d, lean_str(n.slice.value))
            if isinstance(n.slice, ast.Constant) and isinstance(n.slice.value, int) \
                    and not isinstance(n.slice.value, bool) and n.slice.value >= 0:
                return '(.idx %s %d)' % (self.expr(n.value, scope), n.slice.value)
        if _plain_call(n, 1) and _is(n.func, 'self.sqlmeta.idType'):
            return '(.idType %s)' % self.expr(n.args[0], scope)
        if _plain_call(n, 3) and isinstance(n.func, ast.Name) and n.func.id == 'getattr' and _is_self(n.args[0]) \
                and _str_const(n.args[1]):
            return '(.getattrSelfOr %s %s)' % (lean_str(n.args[1].value), self.expr(n.args[2], scope))
        self.err('expression outside the fragment', n)

    def cond(self, n):
        if isinstance(n, ast.UnaryOp) and isinstance(n.op, ast.Not):
            return '(.not %s)' % self.cond(n.operand)
        if isinstance(n, ast.BoolOp):
            op = 'and' if isinstance(n.op, ast.And) else 'or'
            parts = [self.cond(v) for v in n.values]
            out = parts[-1]
            for p in reversed(parts[:-1]):
                out = '(.%s %s %s)' % (op, p, out)
            return out
        if isinstance(n, ast.Compare):
            if len(n.ops) != 1:
                self.err('chained comparison', n)
            op, lhs, rhs = n.ops[0], n.left, n.comparators[0]
            if isinstance(op, (ast.Is, ast.IsNot)):
                if _const(rhs, None):
                    c = '(.isNone %s)' % self.expr(lhs)
                    return c if isinstance(op, ast.Is) else '(.not %s)' % c
                if isinstance(rhs, ast.Name) and rhs.id == 'NoDefault' and 'NoDefault' not in self.kind:
                    c = '(.isNoDefault %s)' % self.expr(lhs)
                    return c if isinstance(op, ast.Is) else '(.not %s)' % c
                c = '(.isNot %s %s)' % (self.expr(lhs), self.expr(rhs))
                return c if isinstance(op, ast.IsNot) else '(.not %s)' % c
            if isinstance(op, (ast.In, ast.NotIn)):
                d = self.dict_slot(rhs)
                if d is None:
                    self.err('membership test outside the fragment', n)
                if _str_const(lhs):
                    c = '(.strInDict %s %d)' % (lean_str(lhs.value), d)
                else:
                    c = '(.inDict %s %d)' % (self.expr(lhs), d)
                return c if isinstance(op, ast.In) else '(.not %s)' % c
            self.err('comparison outside the fragment', n)
        return '(.truthy %s)' % self.expr(n)

    # ---- list-valued expressions ----------------------------------------------------------
    def lexpr(self, n):
        if isinstance(n, ast.Name):
            k = self.kind.get(n.id)
            if k == 'list':
                return '(.var %d)' % self.slot('list', n.id)
            if k == 'view':
                if n.id not in self.views:
                    self.err('view %s used after _SO_createValues was written' % n.id)
                return '.cvItems'
        if isinstance(n, ast.List):
            return '(.lit [%s])' % ', '.join(self.expr(e) for e in n.elts)
        if _meta_attr(n) == 'columnList':
            return '.columnList'
        if _is(n, CV + '.items()'):
            return '.cvItems'
        if _is(n, POSTPONED):
            return '.postponed'
        if isinstance(n, ast.ListComp) and len(n.generators) == 1 and not n.generators[0].ifs \
                and not n.generators[0].is_async and isinstance(n.generators[0].target, ast.Name):
            g = n.generators[0]
            src = self.lexpr(g.iter)
            _, x = self.fresh_var(g.target.id)
            return '(.comp %d %s %s)' % (x, src, self.expr(n.elt, {g.target.id: x}))
        if isinstance(n, ast.Call) and isinstance(n.func, ast.Name) and n.func.id == 'sorted' and len(n.args) == 1 \
                and not any(isinstance(a, ast.Starred) for a in n.args) \
                and len(n.keywords) == 1 and n.keywords[0].arg == 'key' and isinstance(n.keywords[0].value, ast.Lambda):
            lam = n.keywords[0].value
            la = lam.args
            if la.vararg or la.kwarg or la.kwonlyargs or la.defaults or la.posonlyargs or len(la.args) != 1:
                self.err('sort key outside the fragment', n)
            src = self.lexpr(n.args[0])
            _, x = self.fresh_var(la.args[0].arg)
            return '(.sortedBy %d %s %s)' % (x, src, self.expr(lam.body, {la.args[0].arg: x}))
        self.err('list expression outside the fragment', n)

    def is_list_value(self, v):
        return isinstance(v, (ast.List, ast.ListComp)) or \
            (isinstance(v, ast.Call) and isinstance(v.func, ast.Name) and v.func.id == 'sorted')

    # ---- nested functions -----------------------------------------------------------------
    def closure(self, n):
        a = n.args
        if a.args or a.vararg or a.kwarg or a.kwonlyargs or a.defaults or a.posonlyargs or n.decorator_list or self.in_loop:
            self.err('nested function outside the fragment', n)
        out = []
        for s in strip_doc(n.body):
            if isinstance(s, ast.Expr) and isinstance(s.value, ast.Call) and self.is_send(s.value):
                for x in s.value.args[2:]:
                    for y in ast.walk(x):
                        if isinstance(y, ast.Name) and y.id != 'self':
                            if y.id not in self.kind:
                                self.err('nested function reads an unbound name', s)
                            self.frozen.add(y.id)
                out.append('.send %s' % lean_str(s.value.args[0].attr))
                continue
            if isinstance(s, ast.For) and not s.orelse and isinstance(s.target, ast.Name) and len(s.body) == 1 \
                    and isinstance(s.iter, ast.Name) and self.kind.get(s.iter.id) == 'list' \
                    and isinstance(s.body[0], ast.Expr) and _plain_call(s.body[0].value, 1) \
                    and isinstance(s.body[0].value.func, ast.Name) and s.body[0].value.func.id == s.target.id \
                    and _is_self(s.body[0].value.args[0]) and s.target.id not in self.kind:
                self.frozen.add(s.iter.id)
                out.append('.forCallSelf %d' % self.slot('list', s.iter.id))
                continue
            self.err('statement of a nested function outside the fragment', s)
        fid = len(self.closures.bodies)
        self.closures.bodies.append(('%s_clos%d' % (self.ln, fid), n.name, out))
        x = self.bind(n.name, 'var')
        self.frozen.add(n.name)
        return ['(.defClos %d %d)' % (x, fid)]

    def is_send(self, c):
        return isinstance(c.func, ast.Attribute) and _self_attr(c.func.value) == 'sqlmeta' and c.func.attr == 'send' \
            and not c.keywords and len(c.args) >= 2 and not any(isinstance(a, ast.Starred) for a in c.args) \
            and _is_self(c.args[1]) and isinstance(c.args[0], ast.Attribute) and isinstance(c.args[0].value, ast.Name) \
            and c.args[0].value.id == 'events'

    # ---- statements -----------------------------------------------------------------------
    def loop(self, x, body):
        idx = len(self.loops)
        self.loops.append(None)
        self.in_loop += 1
        try:
            self.loops[idx] = self.block(body)
        finally:
            self.in_loop -= 1
        self.defs.append(('body of `for` loop %d' % idx, '%s_for%d' % (self.ln, idx), self.loops[idx]))
        return '%s_for%d' % (self.ln, idx)

    def merge(self, k1, v1, k2, v2):
        merged = {}
        for name in set(k1) | set(k2):
            if k1.get(name) == k2.get(name):
                merged[name] = k1[name]
            elif name in k1 and name in k2:
                merged[name] = 'conflict'
            else:
                merged[name] = k1.get(name) or k2.get(name)
        self.kind = merged
        self.views = v1 & v2

    def stmt(self, n):
        if isinstance(n, ast.Pass):
            return ['.pass']
        if isinstance(n, ast.Continue):
            if not self.in_loop:
                self.err('continue outside a loop', n)
            return ['.continue']
        if isinstance(n, ast.FunctionDef):
            return self.closure(n)
        if isinstance(n, ast.Return):
            if n.value is None or _const(n.value, None):
                return ['.retNone']
            return ['(.ret %s)' % self.expr(n.value)]
        if isinstance(n, ast.Raise) and n.exc is not None and n.cause is None:
            e = n.exc.func if isinstance(n.exc, ast.Call) else n.exc
            if isinstance(e, ast.Name) and e.id in EXC:
                return ['(.raise .%s)' % EXC[e.id]]
        if isinstance(n, ast.If):
            c = self.cond(n.test)
            k0, v0 = dict(self.kind), set(self.views)
            t = self.block(n.body)
            k1, v1 = self.kind, self.views
            self.kind, self.views = dict(k0), set(v0)
            e = self.block(n.orelse)
            self.merge(k1, v1, self.kind, self.views)
            return ['(.ite %s %s %s)' % (c, t, e)]
        if isinstance(n, ast.Assign):
            return self.assign(n)
        if isinstance(n, ast.Delete) and len(n.targets) == 1:
            t = n.targets[0]
            if _is(t, POSTPONED):
                return ['.delPostponed']
            if _is(t, 'self.sqlmeta._creating'):
                return ['.delCreating']
            if _is(t, CV):
                self.cv_written()
                return ['.cvDel']
            if isinstance(t, ast.Subscript) and self.dict_slot(t.value) is not None and _str_const(t.slice):
                return ['(.strDel %d %s)' % (self.dict_slot(t.value), lean_str(t.slice.value))]
        if isinstance(n, ast.Expr):
            if _is(n.value, POSTPONED):
                return ['.readPostponed']
            if isinstance(n.value, ast.Call):
                out = self.call_stmt(n.value)
                if out is not None:
                    return out
        if isinstance(n, ast.For) and not n.orelse and isinstance(n.target, ast.Name):
            src = self.lexpr(n.iter)
            x = self.bind(n.target.id, 'var')
            return ['(.for %d %s %s)' % (x, src, self.loop(x, n.body))]
        if isinstance(n, ast.Try) and not n.orelse:
            idx = len(self.tries)
            self.tries.append({})
            base = '%s_try%d' % (self.ln, idx)
            out = None
            k0, v0 = dict(self.kind), set(self.views)
            body = self.block(n.body)
            self.tries[idx]['body'] = body
            self.defs.append(('`body` block of `try` %d' % idx, base + '_body', body))
            if n.handlers:
                h = n.handlers[0]
                if len(n.handlers) != 1 or not isinstance(h.type, ast.Name) or h.type.id not in EXC or h.name:
                    self.err('only `except <AttributeError|KeyError|TypeError>:` is in the fragment', n)
                k1, v1 = self.kind, self.views
                self.kind, self.views = dict(k0), set(v0)
                self.tries[idx]['handler'] = self.block(h.body)
                self.defs.append(('`handler` block of `try` %d' % idx, base + '_handler', self.tries[idx]['handler']))
                self.merge(k1, v1, self.kind, self.views)
                out = '(.tryExcept %s_body .%s %s_handler)' % (base, EXC[h.type.id], base)
            if n.finalbody:
                # the finally block runs after any prefix of the body: only names bound before the try are sure
                k1 = self.kind
                self.kind = {x: (k if k0.get(x) == k else 'conflict') for x, k in k1.items()}
                self.views = self.views & v0
                self.tries[idx]['fin'] = self.block(n.finalbody)
                self.defs.append(('`fin` block of `try` %d' % idx, base + '_fin', self.tries[idx]['fin']))
                for x, k in k1.items():
                    if self.kind.get(x) == 'conflict' and x not in k0:
                        self.kind[x] = k
                inner = ('(.cons %s .nil)' % out) if out else '%s_body' % base
                out = '(.tryFinally %s %s_fin)' % (inner, base)
            if out:
                return [out]
        self.err('statement outside the fragment', n)

    def assign(self, n):
        v = n.value
        if len(n.targets) != 1:
            self.err('assignment outside the fragment', n)
        t = n.targets[0]
        if _is(t, POSTPONED) and isinstance(v, ast.List) and not v.elts:
            return ['.setPostponedEmpty']
        sa = _self_attr(t)
        if sa in OPAQUE_CTORS and _is(v, OPAQUE_CTORS[sa]):
            return ['(.setAttrOpaque %s %s)' % (lean_str(sa), lean_str(ast.unparse(v.func).split('.')[-1]))]
        if sa == '_SO_writeLock' and _is(v, 'threading.Lock()'):
            return ['.newLock']
        if sa == '_connection':
            return ['(.setConnection %s)' % self.expr(v)]
        if sa == '_SO_createValues' and isinstance(v, ast.Dict) and not v.keys:
            self.cv_written()
            return ['.cvNew']
        m = _meta_attr(t)
        if m == '_perConnection' and _const(v, True):
            return ['.setPerConnection']
        if m == '_creating' and _const(v, True):
            return ['.setCreating']
        if m == 'dirty' and isinstance(v, ast.Constant) and isinstance(v.value, bool):
            return ['(.setDirty %s)' % ('true' if v.value else 'false')]
        if isinstance(t, ast.Subscript) and not isinstance(t.slice, (ast.Slice, ast.Tuple)) \
                and self.dict_slot(t.value) is not None and not _str_const(t.slice):
            return ['(.dictSet %d %s %s)' % (self.dict_slot(t.value), self.expr(t.slice), self.expr(v))]
        if isinstance(t, ast.Name):
            if _is(v, CV + '.items()'):
                self.bind(t.id, 'view')
                self.views.add(t.id)
                return []
            if self.is_list_value(v):
                le = self.lexpr(v)
                return ['(.listAssign %d %s)' % (self.bind(t.id, 'list'), le)]
            if _plain_call(v, 1) and isinstance(v.func, ast.Name) and v.func.id == 'dict' and 'dict' not in self.kind \
                    and isinstance(v.args[0], ast.List) \
                    and all(isinstance(p, ast.Tuple) and len(p.elts) == 2 and _str_const(p.elts[0]) for p in v.args[0].elts):
                ps = ', '.join('(%s, %s)' % (lean_str(p.elts[0].value), self.expr(p.elts[1])) for p in v.args[0].elts)
                return ['(.sdictOfPairs %d [%s])' % (self.bind(t.id, 'dict'), ps)]
            if _plain_call(v, 1) and isinstance(v.func, ast.Attribute) and v.func.attr == 'pop' \
                    and self.dict_slot(v.func.value) is not None and _str_const(v.args[0]):
                d = self.dict_slot(v.func.value)
                return ['(.strPop %d %d %s)' % (self.bind(t.id, 'var'), d, lean_str(v.args[0].value))]
            if _plain_call(v, 4) and _is(v.func, 'self._connection.queryInsertID') and _is_self(v.args[0]):
                i, ns, vs = self.expr(v.args[1]), self.lexpr(v.args[2]), self.lexpr(v.args[3])
                return ['(.queryInsertID %d %s %s %s)' % (self.bind(t.id, 'var'), i, ns, vs)]
            e = self.expr(v)
            return ['(.assign %d %s)' % (self.bind(t.id, 'var'), e)]
        self.err('assignment outside the fragment', n)

    def call_stmt(self, c):
        f = c.func
        if isinstance(f, ast.Name):
            if self.kind.get(f.id) == 'var' and not c.keywords and not any(isinstance(a, ast.Starred) for a in c.args):
                return ['(.callVal %s [%s])' % (self.expr(f), ', '.join(self.expr(a) for a in c.args))]
            return None
        if not isinstance(f, ast.Attribute):
            return None
        if self.is_send(c):
            return ['(.send %s)' % lean_str(c.args[0].attr)]
        if _is(f, POSTPONED + '.append') and _plain_call(c, 1):
            return ['(.postponedAppend %s)' % self.expr(c.args[0])]
        if f.attr == 'created' and isinstance(f.value, ast.Name) and _plain_call(c, 3) \
                and _is(c.args[1], 'self.__class__') and _is_self(c.args[2]):
            return ['(.cacheCreated %s %s)' % (self.expr(f.value), self.expr(c.args[0]))]
        if _is_self(f.value) and f.attr in CALLABLE and not any(isinstance(a, ast.Starred) for a in c.args):
            kw = 'none'
            if c.keywords:
                if len(c.keywords) != 1 or c.keywords[0].arg is not None or self.dict_slot(c.keywords[0].value) is None:
                    return None
                kw = '(some %d)' % self.dict_slot(c.keywords[0].value)
            args = ', '.join(self.expr(a) for a in c.args)
            self.cv_written()
            return ['(.callSelf %s [%s] %s)' % (lean_str(f.attr), args, kw)]
        return None

    def block(self, stmts):
        parts = []
        for s in stmts:
            parts += self.stmt(s)
        out = '.nil'
        for p in reversed(parts):
            out = '(.cons %s\n    %s)' % (p, out)
        return out


def extract(repo):
    tree = parse(repo, 'sqlobject/main.py')
    so = find_class(tree, 'SQLObject')
    lines = [HEADER % 'pycreate', 'import SqlObjVerif.Model.PyCreate', '',
             'namespace SqlObjVerif.PyCreate.Extracted', 'open SqlObjVerif.PyCreate', '']
    closures = Closures()
    for name in METHODS:
        m = Method(find_func(so, name), closures)
        ln = LEAN_NAME[name]
        for (doc, dn, b) in m.defs:
            lines += ['/-- %s of `SQLObject.%s` -/' % (doc, name), 'def %s : Block :=\n  %s' % (dn, b), '']
        for i, s in enumerate(m.stmts):
            lines += ['def %s_s%d : Stmt :=\n  %s' % (ln, i, s), '']

        def show(l):
            return ', '.join('%s=%d' % (v, i) for i, v in enumerate(l) if v is not None) or '-'
        prog = '.nil'
        for i in reversed(range(len(m.stmts))):
            prog = '(.cons %s_s%d %s)' % (ln, i, prog)
        lines += ['/-- `SQLObject.%s(%s)`, translated; values: %s; lists: %s; dicts: %s -/'
                  % (name, ', '.join(['self'] + m.params + (['**' + m.dicts[0]] if m.dicts[0] else [])),
                     show(m.vars), show(m.lists), show(m.dicts)),
                  'def %sProg : Block :=\n  %s' % (ln, prog),
                  'def %s_params : List (Option Val) := [%s]'
                  % (ln, ', '.join('Option.none' if d is None else 'some (.pv .none)' for d in m.defaults)),
                  'def %s_hasKw : Bool := %s' % (ln, 'true' if m.dicts[0] else 'false'), '']
    for (lname, pyname, body) in closures.bodies:
        lines += ['/-- nested function `%s` -/' % pyname, 'def %s : List CStmt := [%s]' % (lname, ', '.join(body)), '']
    lines += ['/-- the nested functions of the three methods -/', 'def closTable (fid : Nat) : List CStmt :=']
    tab = '[]'
    for i in reversed(range(len(closures.bodies))):
        tab = 'if fid = %d then %s else %s' % (i, closures.bodies[i][0], tab)
    lines += ['  ' + tab, '']
    lines.append('end SqlObjVerif.PyCreate.Extracted')
    return '\n'.join(lines) + '\n'
