"""LIMIT/OFFSET rendering: the per-dialect `_queryAddLimitOffset` bodies and the guard in
`Select.__sqlrepr__`, translated to `SqlObjVerif.Slice.Branch` data."""
import ast
from . import ExtractError, parse, find_class, find_func, strip_doc, lean_str, HEADER

TARGET = 'Slice'

DIALECTS = [
    ('sqlite', 'sqlobject/sqlite/sqliteconnection.py', 'SQLiteConnection'),
    ('mysql', 'sqlobject/mysql/mysqlconnection.py', 'MySQLConnection'),
    ('postgres', 'sqlobject/postgres/pgconnection.py', 'PostgresConnection'),
]


def _cond(test):
    d = ast.dump(test)
    if d == ast.dump(ast.parse('not start', mode='eval').body):
        return '.notStart'
    if d == ast.dump(ast.parse('not end', mode='eval').body):
        return '.notEnd'
    if d == ast.dump(ast.parse('end is None', mode='eval').body):
        return '.endIsNone'
    raise ExtractError('unknown guard in _queryAddLimitOffset: %s' % ast.unparse(test))


def _arg(node):
    s = ast.unparse(node)
    if s == 'start':
        return '.start'
    if s == 'end':
        return '.stop'
    if s == 'end - start':
        return '.stopMinusStart'
    raise ExtractError('unknown format argument: %s' % s)


def _ret(ret):
    if not isinstance(ret, ast.Return):
        raise ExtractError('expected return, got %s' % ast.unparse(ret))
    v = ret.value
    if not (isinstance(v, ast.BinOp) and isinstance(v.op, ast.Mod)
            and isinstance(v.left, ast.Constant) and isinstance(v.left.value, str)
            and isinstance(v.right, ast.Tuple)):
        raise ExtractError('expected "fmt" %% (args): %s' % ast.unparse(ret))
    fmt = v.left.value
    args = list(v.right.elts)
    if not args or ast.unparse(args[0]) != 'query':
        raise ExtractError('first format argument is not query')
    args = args[1:]
    toks = fmt.split(' ')
    if toks[0] != '%s' or '' in toks:
        raise ExtractError('format does not start with "%%s " or has double blanks: %r' % fmt)
    pieces = []
    for t in toks[1:]:
        if t == '%i':
            if not args:
                raise ExtractError('too few arguments for %r' % fmt)
            pieces.append('.num %s' % _arg(args.pop(0)))
        elif t == '%i,':
            if not args:
                raise ExtractError('too few arguments for %r' % fmt)
            pieces.append('.numComma %s' % _arg(args.pop(0)))
        elif t.lstrip('-').isdigit():
            pieces.append('.lit (%s)' % t)
        elif t.isalpha():
            pieces.append('.kw %s' % lean_str(t))
        else:
            raise ExtractError('unknown piece %r in %r' % (t, fmt))
    if args:
        raise ExtractError('too many arguments for %r' % fmt)
    return '[' + ', '.join(pieces) + ']'


def _branches(fn):
    out = []
    body = strip_doc(fn.body)
    for st in body[:-1]:
        if not (isinstance(st, ast.If) and not st.orelse and len(st.body) == 1):
            raise ExtractError('unexpected statement: %s' % ast.unparse(st))
        out.append('⟨%s, %s⟩' % (_cond(st.test), _ret(st.body[0])))
    out.append('⟨.always, %s⟩' % _ret(body[-1]))
    return out


def _select_guard(repo):
    tree = parse(repo, 'sqlobject/sqlbuilder.py')
    fn = find_func(find_class(tree, 'Select'), '__sqlrepr__')
    for node in ast.walk(fn):
        if isinstance(node, ast.If) and '_queryAddLimitOffset' in ast.unparse(node.body):
            s = ast.unparse(node.test)
            if s == 'start or end is not None':
                return '.startOrStopGiven'
            if s == 'start or end':
                return '.startOrStopTruthy'
            raise ExtractError('unknown window guard in Select.__sqlrepr__: %s' % s)
    raise ExtractError('window guard not found in Select.__sqlrepr__')


def extract(repo):
    lines = [HEADER % 'slice', 'import SqlObjVerif.Model.SliceSyn', '',
             'namespace SqlObjVerif.Slice.Extracted', '']
    for name, rel, cls in DIALECTS:
        fn = find_func(find_class(parse(repo, rel), cls), '_queryAddLimitOffset')
        lines.append('/-- `%s._queryAddLimitOffset` (%s) -/' % (cls, rel))
        lines.append('def %s : List Branch := [\n  %s]' % (name, ',\n  '.join(_branches(fn))))
        lines.append('')
    lines.append('/-- the test in `Select.__sqlrepr__` that decides whether a window clause is added -/')
    lines.append('def selectGuard : Guard := %s' % _select_guard(repo))
    lines.append('')
    lines.append('end SqlObjVerif.Slice.Extracted')
    return '\n'.join(lines) + '\n'
