"""TRANSLATOR: the value-level instance methods of `SQLObject` (sqlobject/main.py) -> PyMain blocks.

`expire`, `syncUpdate`, `sync`, `_SO_loadValue`, `_SO_getValue`, `_SO_selectInit`, `_SO_setValue`, `set` are
translated statement by statement into the deep embedding of `lean/SqlObjVerif/Model/PyMain.lean`.
Anything outside the fragment raises ExtractError.  Conventions:
  * value-, list- and dict-valued locals are numbered separately, each in order of first binding, the
    parameters after `self` first (`<m>_nlocals`, `<m>_nlists`, `<m>_ndicts`); dict slot 0 is `**kw`
    (unused when the method has none); a behaviour-preserving rename of a local gives the same term;
    the kind of a name is tracked along the control flow (a name may be a dict and later a list);
  * a local `def f(x): return <expr>` is inlined where it is called; `filter(f, src)`,
    `sorted(src, key=lambda x: e)` and list comprehensions get a slot for their bound variable;
  * `x = self.sqlmeta.columns` is an alias (no statement); `items = d.items()` is a view that may only be
    used while `d` is neither rebound nor written;
  * the body of the n-th `for` loop of a method (source order) becomes its own definition `<m>_for<n>`;
  * a `for` over the items / keys of a dict whose body writes that dict other than `d[<loop key>] = …`
    (which cannot change its size), or calls a method of self while iterating `_SO_createValues`, is refused
    (the embedding iterates a snapshot);
  * messages of `assert` / `raise` and the arguments of `sqlmeta.send(...)` are dropped.
"""
import ast
import copy
from . import ExtractError, parse, find_class, find_func, strip_doc, HEADER

TARGET = 'PyMain'

METHODS = ['expire', 'syncUpdate', 'sync', '_SO_loadValue', '_SO_getValue', '_SO_selectInit', '_SO_setValue', 'set']
LEAN_NAME = {'expire': 'expire', 'syncUpdate': 'syncUpdate', 'sync': 'sync', '_SO_loadValue': 'loadValue',
             '_SO_getValue': 'getValue', '_SO_selectInit': 'selectInit', '_SO_setValue': 'setValue', 'set': 'set'}
CALLABLE = ('syncUpdate', '_SO_selectInit', 'set', 'sync', 'expire')
FLAGS = {'expired': 'expired', 'dirty': 'dirty', 'lazyUpdate': 'lazyUpdate', 'cacheValues': 'cacheValues',
         '_creating': 'creating', '_obsolete': 'obsolete'}
COLATTR = {'name': 'name', 'dbName': 'dbName', 'to_python': 'toPython', 'from_python': 'fromPython',
           'creationOrder': 'creationOrder'}
EXC = {'AttributeError': 'attributeError', 'KeyError': 'keyError', 'TypeError': 'typeError',
       'SQLObjectNotFound': 'notFound'}
SUPPRESS = 'row_update_sig_suppress'


def _is_self(n):
    return isinstance(n, ast.Name) and n.id == 'self'


def _self_attr(n):
    """name of `self.<name>` or None"""
    if isinstance(n, ast.Attribute) and _is_self(n.value):
        return n.attr
    return None


def _meta_attr(n):
    """name of `self.sqlmeta.<name>` or None"""
    if isinstance(n, ast.Attribute) and _self_attr(n.value) == 'sqlmeta':
        return n.attr
    return None


def _plain_call(n, nargs):
    return isinstance(n, ast.Call) and not n.keywords and len(n.args) == nargs \
        and not any(isinstance(a, ast.Starred) for a in n.args)


def _const(n, v):
    return isinstance(n, ast.Constant) and n.value is v


def _is_self_class(n):
    return isinstance(n, ast.Attribute) and _is_self(n.value) and n.attr == '__class__'


class _Subst(ast.NodeTransformer):
    def __init__(self, mapping):
        self.mapping = mapping

    def visit_Name(self, n):
        if isinstance(n.ctx, ast.Load) and n.id in self.mapping:
            return copy.deepcopy(self.mapping[n.id])
        return n


class Method(object):
    def __init__(self, fn):
        self.fn = fn
        self.name = fn.name
        a = fn.args
        if a.vararg or a.kwonlyargs or a.posonlyargs or not a.args or a.args[0].arg != 'self' or fn.decorator_list:
            raise ExtractError('unexpected signature of %s' % fn.name)
        self.params = [x.arg for x in a.args[1:]]
        self.vars = list(self.params)
        self.lists = []
        self.dicts = [a.kwarg.arg if a.kwarg else None]
        self.kind = {p: 'var' for p in self.params}
        if a.kwarg:
            self.kind[a.kwarg.arg] = 'dict'
        self.fns = {}            # local `def f(x): return e`
        self.views = {}          # view name -> dict reference it shows
        self.loops = []
        self.fresh = 0
        self.in_loop = 0
        self.body = self.block(strip_doc(fn.body))

    def err(self, msg, n=None):
        raise ExtractError('%s: %s%s' % (self.name, msg, (': ' + ast.unparse(n).split('\n')[0]) if n is not None else ''))

    # ---- slots ----------------------------------------------------------------------------
    def slot(self, space, name):
        l = {'var': self.vars, 'list': self.lists, 'dict': self.dicts}[space]
        if name not in l:
            l.append(name)
        return l.index(name)

    def bind(self, name, kind):
        """(re)bind a local name; returns its slot in the space of `kind`"""
        old = self.kind.get(name)
        if old is not None and old != kind and self.in_loop:
            self.err('%s changes its kind inside a loop' % name)
        if name in self.fns:
            self.err('%s is a local function and is rebound' % name)
        self.kind[name] = kind
        for v, d in list(self.views.items()):
            if d == name or v == name:
                del self.views[v]
        if kind in ('var', 'list', 'dict'):
            return self.slot(kind, name)
        return None

    def temp(self, hint):
        self.fresh += 1
        name = '<%s#%d>' % (hint, self.fresh)
        self.kind[name] = 'var'
        return name, self.slot('var', name)

    def var(self, name, n=None):
        if self.kind.get(name) == 'var':
            return self.slot('var', name)
        self.err('name %s is not a value-kind local here' % name, n)

    def touched(self, d):
        """dict `d` (a local name or 'self._SO_createValues') is written: its views die"""
        for v, dd in list(self.views.items()):
            if dd == d:
                del self.views[v]

    # ---- dict references ------------------------------------------------------------------
    def dref(self, n):
        """Lean DRef of a dict-valued expression, or None"""
        if _self_attr(n) == '_SO_createValues':
            return '.createValues'
        if isinstance(n, ast.Name) and self.kind.get(n.id) == 'dict':
            return '(.loc %d)' % self.slot('dict', n.id)
        return None

    def dref_name(self, n):
        if _self_attr(n) == '_SO_createValues':
            return 'self._SO_createValues'
        if isinstance(n, ast.Name):
            return n.id
        return None

    def is_columns(self, n):
        return _meta_attr(n) == 'columns' or (isinstance(n, ast.Name) and self.kind.get(n.id) == 'cols')

    # ---- expressions ----------------------------------------------------------------------
    def inline(self, call):
        f = self.fns[call.func.id]
        if call.keywords or len(call.args) != len(f[0]):
            self.err('call of local function outside the fragment', call)
        return _Subst(dict(zip(f[0], call.args))).visit(copy.deepcopy(f[1]))

    def expr(self, n):
        if isinstance(n, ast.Name):
            return '(.var %d)' % self.var(n.id, n)
        if isinstance(n, ast.Constant):
            if n.value is None:
                return '.none'
            if n.value is True:
                return '.true'
            if n.value is False:
                return '.false'
        m = _meta_attr(n)
        if m in FLAGS:
            return '(.flag .%s)' % FLAGS[m]
        if isinstance(n, ast.Attribute) and n.attr in COLATTR and not _is_self(n.value) \
                and _self_attr(n.value) is None:
            return '(.colAttr %s .%s)' % (self.expr(n.value), COLATTR[n.attr])
        if isinstance(n, ast.Tuple) and len(n.elts) == 2:
            return '(.pair %s %s)' % (self.expr(n.elts[0]), self.expr(n.elts[1]))
        if isinstance(n, ast.Subscript) and not isinstance(n.slice, (ast.Slice, ast.Tuple)):
            if self.is_columns(n.value):
                return '(.column %s)' % self.expr(n.slice)
            d = self.dref(n.value)
            if d is not None:
                return '(.dictIdx %s %s)' % (d, self.expr(n.slice))
            if isinstance(n.slice, ast.Constant) and isinstance(n.slice.value, int) \
                    and not isinstance(n.slice.value, bool) and n.slice.value >= 0:
                return '(.idx %s %d)' % (self.expr(n.value), n.slice.value)
        if isinstance(n, ast.Call) and not n.keywords:
            f = n.func
            if isinstance(f, ast.Name) and f.id in self.fns:
                return self.expr(self.inline(n))
            if isinstance(f, ast.Name) and f.id == 'instanceName' and _plain_call(n, 1):
                return '(.instName %s)' % self.expr(n.args[0])
            if isinstance(f, ast.Name) and f.id == 'getattr':
                if _plain_call(n, 2) and _is_self(n.args[0]):
                    return '(.getattrSelf %s)' % self.expr(n.args[1])
                if _plain_call(n, 2) and _is_self_class(n.args[0]):
                    return '(.getattrCls %s)' % self.expr(n.args[1])
                if _plain_call(n, 3) and _self_attr(n.args[0]) == 'sqlmeta' and _const(n.args[2], False) \
                        and isinstance(n.args[1], ast.Constant) and n.args[1].value == SUPPRESS:
                    return '.sigSuppress'
                if _plain_call(n, 3) and _is_self(n.args[0]) and _const(n.args[2], None):
                    a = n.args[1]
                    if isinstance(a, ast.BinOp) and isinstance(a.op, ast.Mod) and isinstance(a.left, ast.Constant) \
                            and a.left.value in ('_SO_from_python_%s', '_SO_to_python_%s'):
                        kd = '.fromPy' if 'from' in a.left.value else '.toPy'
                        return '(.validator %s %s)' % (kd, self.expr(a.right))
            if _plain_call(n, 2) and _self_attr(n.args[1]) == '_SO_validatorState' \
                    and (isinstance(f, ast.Name) or (isinstance(f, ast.Attribute) and f.attr in ('to_python', 'from_python'))):
                return '(.call %s %s)' % (self.expr(f), self.expr(n.args[0]))
        self.err('expression outside the fragment', n)

    def cond(self, n):
        if isinstance(n, ast.UnaryOp) and isinstance(n.op, ast.Not):
            return '(.not %s)' % self.cond(n.operand)
        if isinstance(n, ast.BoolOp):
            op = 'and' if isinstance(n.op, ast.And) else 'or'
            parts = [self.cond(v) for v in n.values]
            out = parts[-1]
            for p in reversed(parts[:-1]):
                out = '(.%s %s %s)' % (op, p, out)
            return out
        if isinstance(n, ast.Compare):
            if len(n.ops) != 1:
                self.err('chained comparison', n)
            op, lhs, rhs = n.ops[0], n.left, n.comparators[0]
            if isinstance(op, ast.Is) and _const(rhs, None):
                return '(.isNone %s)' % self.expr(lhs)
            if isinstance(op, ast.IsNot) and _const(rhs, None):
                return '(.isNotNone %s)' % self.expr(lhs)
            if isinstance(op, (ast.In, ast.NotIn)):
                if self.is_columns(rhs):
                    c = '(.inColumns %s)' % self.expr(lhs)
                elif _meta_attr(rhs) == '_plainSetters':
                    c = '(.inPlainSetters %s)' % self.expr(lhs)
                elif self.dref(rhs) is not None:
                    c = '(.inDict %s %s)' % (self.expr(lhs), self.dref(rhs))
                else:
                    self.err('membership test outside the fragment', n)
                return c if isinstance(op, ast.In) else '(.not %s)' % c
            if isinstance(op, ast.NotEq) and _plain_call(lhs, 1) and isinstance(lhs.func, ast.Name) \
                    and lhs.func.id == 'len' and self.dref(lhs.args[0]) is not None \
                    and isinstance(rhs, ast.Constant) and isinstance(rhs.value, int) and rhs.value >= 0:
                return '(.lenNe %s %d)' % (self.dref(lhs.args[0]), rhs.value)
            self.err('comparison outside the fragment', n)
        if isinstance(n, ast.Call) and isinstance(n.func, ast.Name):
            if n.func.id in self.fns:
                return self.cond(self.inline(n))
            if n.func.id == 'hasattr' and _plain_call(n, 2) and _is_self_class(n.args[0]):
                return '(.hasattrCls %s)' % self.expr(n.args[1])
        if self.dref(n) is not None:
            return '(.dictTruthy %s)' % self.dref(n)
        if isinstance(n, ast.Name) and self.kind.get(n.id) == 'list':
            return '(.listTruthy %d)' % self.slot('list', n.id)
        if _meta_attr(n) == 'columns':
            return '.columnsTruthy'
        return '(.truthy %s)' % self.expr(n)

    # ---- list-valued expressions ----------------------------------------------------------
    def target(self, t, scope=None):
        """bind the loop / comprehension target; returns (lean Target, [names])"""
        names = [t] if isinstance(t, ast.Name) else (list(t.elts) if isinstance(t, ast.Tuple) else None)
        if not names or len(names) > 2 or not all(isinstance(x, ast.Name) for x in names) \
                or len({x.id for x in names}) != len(names):
            self.err('loop target outside the fragment', t)
        slots = [self.bind(x.id, 'var') for x in names]
        if len(slots) == 1:
            return '(.one %d)' % slots[0], [x.id for x in names]
        return '(.two %d %d)' % (slots[0], slots[1]), [x.id for x in names]

    def scoped(self, names, f):
        """run f with `names` bound as fresh value-kind variables of an inner scope; returns (slots, f())"""
        saved = {x: self.kind.get(x) for x in names}
        saved_vars = {}
        slots = []
        for x in names:
            self.fresh += 1
            inner = '<%s#%d>' % (x, self.fresh)
            slots.append(self.slot('var', inner))
            saved_vars[x] = inner
        # temporarily route the names to the inner slots
        old_slot = self.slot

        def slot(space, name):
            if space == 'var' and name in saved_vars:
                return old_slot('var', saved_vars[name])
            return old_slot(space, name)
        self.slot = slot
        for x in names:
            self.kind[x] = 'var'
        try:
            out = f()
        finally:
            self.slot = old_slot
            for x in names:
                if saved[x] is None:
                    del self.kind[x]
                else:
                    self.kind[x] = saved[x]
        return slots, out

    def lexpr(self, n, ctx='iter'):
        """ctx: 'iter' (a dict name means its keys) or 'dict' (argument of dict(): a dict name means its items)"""
        if isinstance(n, ast.Name):
            k = self.kind.get(n.id)
            if k == 'list':
                return '(.var %d)' % self.slot('list', n.id)
            if k == 'dict':
                return '(.%s %s)' % ('keys' if ctx == 'iter' else 'items', self.dref(n))
            if k == 'view':
                if n.id not in self.views:
                    self.err('view %s used after its dict was written or rebound' % n.id)
                d = self.views[n.id]
                dn = ast.parse(d, mode='eval').body
                return '(.items %s)' % self.dref(dn)
            if k == 'var':
                return '(.ofRow (.var %d))' % self.slot('var', n.id)
        if isinstance(n, ast.List):
            return '(.lit [%s])' % ', '.join(self.expr(e) for e in n.elts)
        if _meta_attr(n) == 'columnList':
            return '.columnList'
        if _plain_call(n, 0) and isinstance(n.func, ast.Attribute) and n.func.attr == 'items' \
                and self.dref(n.func.value) is not None:
            return '(.items %s)' % self.dref(n.func.value)
        if _plain_call(n, 2) and isinstance(n.func, ast.Name) and n.func.id == 'zip':
            return '(.zip %s %s)' % (self.lexpr(n.args[0]), self.lexpr(n.args[1]))
        if isinstance(n, ast.ListComp) and len(n.generators) == 1 and not n.generators[0].ifs \
                and not n.generators[0].is_async:
            g = n.generators[0]
            src = self.lexpr(g.iter)
            names = [g.target] if isinstance(g.target, ast.Name) else \
                (list(g.target.elts) if isinstance(g.target, ast.Tuple) else None)
            if not names or len(names) > 2 or not all(isinstance(x, ast.Name) for x in names):
                self.err('comprehension target outside the fragment', n)
            slots, e = self.scoped([x.id for x in names], lambda: self.expr(n.elt))
            t = '(.one %d)' % slots[0] if len(slots) == 1 else '(.two %d %d)' % tuple(slots)
            return '(.comp %s %s %s)' % (t, src, e)
        if isinstance(n, ast.Call) and isinstance(n.func, ast.Name) and n.func.id == 'sorted' and len(n.args) == 1 \
                and len(n.keywords) == 1 and n.keywords[0].arg == 'key' and isinstance(n.keywords[0].value, ast.Lambda):
            lam = n.keywords[0].value
            la = lam.args
            if la.vararg or la.kwarg or la.kwonlyargs or la.defaults or la.posonlyargs or len(la.args) != 1:
                self.err('sort key outside the fragment', n)
            src = self.lexpr(n.args[0])
            slots, e = self.scoped([la.args[0].arg], lambda: self.expr(lam.body))
            return '(.sortedBy %d %s %s)' % (slots[0], src, e)
        if _plain_call(n, 2) and isinstance(n.func, ast.Name) and n.func.id == 'filter' \
                and isinstance(n.args[0], ast.Name) and n.args[0].id in self.fns:
            params, body = self.fns[n.args[0].id]
            if len(params) != 1:
                self.err('filter function outside the fragment', n)
            src = self.lexpr(n.args[1])
            slots, c = self.scoped([params[0]], lambda: self.cond(copy.deepcopy(body)))
            return '(.filter %d %s %s)' % (slots[0], src, c)
        self.err('list expression outside the fragment', n)

    def is_list_value(self, v):
        return isinstance(v, (ast.List, ast.ListComp)) or \
            (isinstance(v, ast.Call) and isinstance(v.func, ast.Name) and v.func.id == 'sorted')

    # ---- loops ----------------------------------------------------------------------------
    def check_loop(self, it, body, key):
        """the dicts the loop iterates must not change size in the body"""
        srcs = set()
        for x in ast.walk(it):
            dn = self.dref_name(x)
            if dn is not None and (self.dref(x) is not None):
                srcs.add(dn)
            if isinstance(x, ast.Name) and x.id in self.views:
                srcs.add(self.views[x.id])
        for st in body:
            for x in ast.walk(st):
                if isinstance(x, (ast.Assign, ast.AugAssign, ast.Delete)):
                    ts = x.targets if not isinstance(x, ast.AugAssign) else [x.target]
                    for t in ts:
                        if isinstance(t, ast.Subscript) and self.dref_name(t.value) in srcs:
                            if isinstance(x, ast.Assign) and isinstance(t.slice, ast.Name) and t.slice.id == key:
                                continue
                            self.err('loop writes the dict it iterates', x)
                        if self.dref_name(t) in srcs:
                            self.err('loop rebinds the dict it iterates', x)
                        if isinstance(t, ast.Name) and t.id == key and isinstance(x, ast.Assign) \
                                and any(isinstance(y, ast.Subscript) and self.dref_name(y.value) in srcs
                                        for y in ast.walk(ast.Module(body=body, type_ignores=[]))
                                        if isinstance(y, ast.Subscript) and isinstance(y.ctx, ast.Store)):
                            self.err('loop rebinds its key and writes the dict it iterates', x)
                if isinstance(x, ast.Call) and isinstance(x.func, ast.Attribute):
                    if self.dref_name(x.func.value) in srcs and x.func.attr not in ('get', 'keys', 'values', 'items'):
                        self.err('loop changes the dict it iterates', x)
                    if _is_self(x.func.value) and 'self._SO_createValues' in srcs:
                        self.err('loop over _SO_createValues calls a method of self', x)

    def loop(self, body):
        idx = len(self.loops)
        self.loops.append(None)
        self.in_loop += 1
        try:
            self.loops[idx] = self.block(body)
        finally:
            self.in_loop -= 1
        return '%s_for%d' % (LEAN_NAME[self.name], idx)

    # ---- statements -----------------------------------------------------------------------
    def stmt(self, n):
        """list of Lean statements"""
        if isinstance(n, ast.Pass):
            return ['.pass']
        if isinstance(n, ast.FunctionDef):
            a = n.args
            body = strip_doc(n.body)
            if a.vararg or a.kwarg or a.kwonlyargs or a.defaults or a.posonlyargs or n.decorator_list \
                    or len(body) != 1 or not isinstance(body[0], ast.Return) or body[0].value is None \
                    or n.name in self.kind or self.in_loop:
                self.err('nested function outside the fragment', n)
            self.fns[n.name] = ([x.arg for x in a.args], body[0].value)
            return []
        if isinstance(n, ast.Return):
            if n.value is None or _const(n.value, None):
                return ['.retNone']
            return ['(.ret %s)' % self.expr(n.value)]
        if isinstance(n, ast.Assert):
            return ['(.assert %s)' % self.cond(n.test)]
        if isinstance(n, ast.Raise) and n.exc is not None and n.cause is None:
            e = n.exc.func if isinstance(n.exc, ast.Call) else n.exc
            if isinstance(e, ast.Name) and e.id in EXC:
                return ['(.raise .%s)' % EXC[e.id]]
        if isinstance(n, ast.If):
            c = self.cond(n.test)
            k0, v0 = dict(self.kind), dict(self.views)
            t = self.block(n.body)
            k1, v1 = self.kind, self.views
            self.kind, self.views = dict(k0), dict(v0)
            e = self.block(n.orelse)
            k2, v2 = self.kind, self.views
            merged = {}
            for name in set(k1) | set(k2):
                if k1.get(name) == k2.get(name):
                    merged[name] = k1[name]
                elif name in k1 and name in k2:
                    merged[name] = 'conflict'
                else:
                    merged[name] = k1.get(name) or k2.get(name)
            self.kind = merged
            self.views = {v: d for v, d in v1.items() if v2.get(v) == d}
            return ['(.ite %s %s %s)' % (c, t, e)]
        if isinstance(n, ast.Assign):
            return self.assign(n)
        if isinstance(n, ast.Delete) and len(n.targets) == 1 and _meta_attr(n.targets[0]) == SUPPRESS:
            return ['.delSigSuppress']
        if isinstance(n, ast.Expr) and isinstance(n.value, ast.Call):
            out = self.call_stmt(n.value)
            if out is not None:
                return out
        if isinstance(n, ast.For) and not n.orelse:
            src = self.lexpr(n.iter)
            t, names = self.target(n.target)
            self.check_loop(n.iter, n.body, names[0])
            return ['(.for %s %s %s)' % (t, src, self.loop(n.body))]
        if isinstance(n, ast.Try):
            out = None
            if n.handlers:
                h = n.handlers[0]
                if len(n.handlers) != 1 or not isinstance(h.type, ast.Name) or h.type.id not in ('AttributeError', 'KeyError'):
                    self.err('only `except AttributeError/KeyError:` is in the fragment', n)
                if h.name:
                    self.kind[h.name] = 'exc'
                out = '(.tryExcept %s .%s %s %s)' % (self.block(n.body), EXC[h.type.id], self.block(h.body),
                                                      self.block(n.orelse))
            elif n.orelse:
                self.err('try/else without except', n)
            if n.finalbody:
                inner = ('(.cons %s\n    .nil)' % out) if out else self.block(n.body)
                out = '(.tryFinally %s %s)' % (inner, self.block(n.finalbody))
            if out:
                return [out]
        self.err('statement outside the fragment', n)

    def assign(self, n):
        v = n.value
        if len(n.targets) == 2 and isinstance(n.targets[1], ast.Name) and isinstance(n.targets[0], ast.Subscript):
            # d[k] = x = e   (e is evaluated once; the two stores do not depend on each other)
            t0, t1 = n.targets
            d = self.dref(t0.value)
            if d is None or isinstance(t0.slice, (ast.Slice, ast.Tuple)) or \
                    any(isinstance(y, ast.Name) and y.id == t1.id for y in ast.walk(t0)):
                self.err('chained assignment outside the fragment', n)
            e = self.expr(v)
            x = self.bind(t1.id, 'var')
            self.touched(self.dref_name(t0.value))
            return ['(.assign %d %s)' % (x, e), '(.dictSet %s %s (.var %d))' % (d, self.expr(t0.slice), x)]
        if len(n.targets) != 1:
            self.err('assignment outside the fragment', n)
        t = n.targets[0]
        m = _meta_attr(t)
        if m in ('expired', 'dirty') and isinstance(v, ast.Constant) and isinstance(v.value, bool):
            return ['(.setFlag .%s %s)' % (m, 'true' if v.value else 'false')]
        if m == SUPPRESS and _const(v, True):
            return ['.setSigSuppress']
        if isinstance(t, ast.Subscript) and not isinstance(t.slice, (ast.Slice, ast.Tuple)) and self.dref(t.value) is not None:
            out = ['(.dictSet %s %s %s)' % (self.dref(t.value), self.expr(t.slice), self.expr(v))]
            self.touched(self.dref_name(t.value))
            return out
        is_cv = _self_attr(t) == '_SO_createValues'
        if isinstance(t, ast.Name) or is_cv:
            def dtarget():
                if is_cv:
                    self.touched('self._SO_createValues')
                    return '.createValues'
                return '(.loc %d)' % self.bind(t.id, 'dict')
            if isinstance(v, ast.Dict) and not v.keys:
                return ['(.dictNew %s)' % dtarget()]
            if isinstance(v, ast.Dict) and len(v.keys) == 1 and v.keys[0] is not None:
                k, e = self.expr(v.keys[0]), self.expr(v.values[0])
                return ['(.dictLit1 %s %s %s)' % (dtarget(), k, e)]
            if _plain_call(v, 1) and isinstance(v.func, ast.Name) and v.func.id == 'dict':
                le = self.lexpr(v.args[0], ctx='dict')
                return ['(.dictOfList %s %s)' % (dtarget(), le)]
        if isinstance(t, ast.Name):
            if self.is_list_value(v):
                le = self.lexpr(v)
                return ['(.listAssign %d %s)' % (self.bind(t.id, 'list'), le)]
            if _plain_call(v, 0) and isinstance(v.func, ast.Attribute) and v.func.attr == 'items' \
                    and self.dref(v.func.value) is not None:
                d = self.dref_name(v.func.value)
                self.bind(t.id, 'view')
                self.views[t.id] = d
                return []
            if _meta_attr(v) == 'columns':
                self.bind(t.id, 'cols')
                return []
            if _plain_call(v, 2) and isinstance(v.func, ast.Attribute) and v.func.attr == '_SO_selectOne' \
                    and _self_attr(v.func.value) == '_connection' and _is_self(v.args[0]):
                le = self.lexpr(v.args[1])
                return ['(.selectOne %d %s)' % (self.bind(t.id, 'var'), le)]
            e = self.expr(v)
            return ['(.assign %d %s)' % (self.bind(t.id, 'var'), e)]
        self.err('assignment outside the fragment', n)

    def call_stmt(self, c):
        f = c.func
        if isinstance(f, ast.Name):
            if f.id == 'setattr' and _plain_call(c, 3) and _is_self(c.args[0]):
                return ['(.setattrSelf %s %s)' % (self.expr(c.args[1]), self.expr(c.args[2]))]
            if f.id == 'delattr' and _plain_call(c, 2) and _is_self(c.args[0]):
                return ['(.delattrSelf %s)' % self.expr(c.args[1])]
            if f.id == 'getattr':
                return ['(.exprStmt %s)' % self.expr(c)]
            if self.kind.get(f.id) == 'var' and _plain_call(c, 1) and _is_self(c.args[0]):
                return ['(.callOpaque %s)' % self.expr(f)]
            return None
        if not isinstance(f, ast.Attribute):
            return None
        if _self_attr(f.value) == '_SO_writeLock' and f.attr in ('acquire', 'release') and _plain_call(c, 0):
            return ['.' + f.attr]
        if _self_attr(f.value) == '_connection' and f.attr == '_SO_update' and _plain_call(c, 2) and _is_self(c.args[0]):
            return ['(.update %s)' % self.lexpr(c.args[1])]
        if f.attr == 'expire' and isinstance(f.value, ast.Attribute) and f.value.attr == 'cache' \
                and _self_attr(f.value.value) == '_connection' and _plain_call(c, 2) \
                and _self_attr(c.args[0]) == 'id' and _is_self_class(c.args[1]):
            return ['.cacheExpire']
        if _self_attr(f.value) == 'sqlmeta' and f.attr == 'send' and _plain_call(c, 3) and _is_self(c.args[1]) \
                and isinstance(c.args[0], ast.Attribute) and isinstance(c.args[0].value, ast.Name) \
                and c.args[0].value.id == 'events':
            return ['(.send "%s")' % c.args[0].attr]
        if _is_self(f.value) and f.attr in CALLABLE:
            if not c.keywords and not any(isinstance(a, ast.Starred) for a in c.args):
                return ['(.callSelf "%s" [%s])' % (f.attr, ', '.join(self.expr(a) for a in c.args))]
            if not c.args and len(c.keywords) == 1 and c.keywords[0].arg is None and self.dref(c.keywords[0].value):
                return ['(.callSelfKw "%s" %s)' % (f.attr, self.dref(c.keywords[0].value))]
        if f.attr == 'update' and _plain_call(c, 1) and self.dref(f.value) is not None and self.dref(c.args[0]) is not None:
            out = ['(.dictUpdate %s %s)' % (self.dref(f.value), self.dref(c.args[0]))]
            self.touched(self.dref_name(f.value))
            return out
        return None

    def block(self, stmts):
        parts = []
        for s in stmts:
            parts += self.stmt(s)
        out = '.nil'
        for p in reversed(parts):
            out = '(.cons %s\n    %s)' % (p, out)
        return out


def extract(repo):
    tree = parse(repo, 'sqlobject/main.py')
    so = find_class(tree, 'SQLObject')
    lines = [HEADER % 'pymain', 'import SqlObjVerif.Model.PyMain', '',
             'namespace SqlObjVerif.PyMain.Extracted', 'open SqlObjVerif.PyMain', '']
    for name in METHODS:
        m = Method(find_func(so, name))
        ln = LEAN_NAME[name]
        for i, b in enumerate(m.loops):
            lines += ['/-- body of `for` loop %d of `SQLObject.%s` -/' % (i, name),
                      'def %s_for%d : Block :=\n  %s' % (ln, i, b), '']

        def show(l):
            return ', '.join('%s=%d' % (v, i) for i, v in enumerate(l) if v is not None) or '-'
        lines += ['/-- `SQLObject.%s(%s)`, translated; values: %s; lists: %s; dicts: %s -/'
                  % (name, ', '.join(['self'] + m.params + (['**' + m.dicts[0]] if m.dicts[0] else [])),
                     show(m.vars), show(m.lists), show(m.dicts)),
                  'def %sProg : Block :=\n  %s' % (ln, m.body),
                  'def %s_nargs : Nat := %d' % (ln, len(m.params)),
                  'def %s_nlocals : Nat := %d' % (ln, len(m.vars) - len(m.params)),
                  'def %s_nlists : Nat := %d' % (ln, len(m.lists)),
                  'def %s_ndicts : Nat := %d' % (ln, len(m.dicts) - 1), '']
    lines.append('end SqlObjVerif.PyMain.Extracted')
    return '\n'.join(lines) + '\n'
