"""Query planning code read as data: the keyword-equality operator choice of `_SO_columnClause`,
the '-' prefix rule of `_mungeOrderBy`, `DESC.__sqlrepr__`, the `reverser` of `Select.__sqlrepr__`,
the COUNT expressions of `SelectResults.count`, the DISTINCT word of `accumulateMany`, the SQL
function names behind sum/min/max/avg, the clone chain of `accumulateSelect`, the three cases of
`getOne`, the miss branch of `_SO_fetchAlternateID` and the tail of `SODatabaseIndex.get`.

Every shape that is not recognised raises ExtractError (the model can then no longer be tied to
the source; the framework searches for a failing input)."""
import ast
from . import ExtractError, parse, find_class, find_func, strip_doc, lean_str, HEADER

TARGET = 'Query'


def _same(node, src):
    return ast.dump(node) == ast.dump(ast.parse(src, mode='eval').body)


def _same_stmt(node, src):
    return ast.dump(node) == ast.dump(ast.parse(src).body[0])


def _const_str(node, what):
    if isinstance(node, ast.Constant) and isinstance(node.value, str):
        return node.value
    raise ExtractError('%s: expected a string literal, got %s' % (what, ast.unparse(node)))


def _cond_op(s):
    t = {'IS': '.is', '=': '.eq', '==': '.eq', '<>': '.ne', '!=': '.ne', 'IS NOT': '.ne'}
    if s.strip().upper() in t:
        return t[s.strip().upper()]
    raise ExtractError('_SO_columnClause: unknown operator text %r' % s)


def column_clause(repo):
    tree = parse(repo, 'sqlobject/dbconnection.py')
    fn = find_func(find_class(tree, 'DBAPI'), '_SO_columnClause')
    ret = fn.body[-1]
    if not isinstance(ret, ast.Return):
        raise ExtractError('_SO_columnClause: last statement is not a return')
    v = ret.value
    if not (isinstance(v, ast.Call) and isinstance(v.func, ast.Attribute) and v.func.attr == 'join'
            and len(v.args) == 1 and isinstance(v.args[0], ast.ListComp)):
        raise ExtractError('_SO_columnClause: expected "<sep>".join([...]): %s' % ast.unparse(v))
    joiner = _const_str(v.func.value, '_SO_columnClause joiner')
    if joiner.strip().upper() != 'AND' or joiner != ' AND ':
        raise ExtractError('_SO_columnClause: conditions joined by %r, not " AND "' % joiner)
    comp = v.args[0]
    elt = comp.elt
    if not (isinstance(elt, ast.BinOp) and isinstance(elt.op, ast.Mod) and isinstance(elt.right, ast.Tuple)
            and _const_str(elt.left, 'format') == '%s %s %s' and len(elt.right.elts) == 3):
        raise ExtractError('_SO_columnClause: unexpected condition format: %s' % ast.unparse(elt))
    if len(comp.generators) != 1 or comp.generators[0].ifs or ast.unparse(comp.generators[0].iter) != 'data' \
            or ast.unparse(comp.generators[0].target) != '(dbName, value)':
        raise ExtractError('_SO_columnClause: unexpected comprehension: %s' % ast.unparse(comp))
    a, op, lit = elt.right.elts
    if ast.unparse(a) != 'dbName' or ast.unparse(lit) != 'self.sqlrepr(value)':
        raise ExtractError('_SO_columnClause: unexpected operands: %s' % ast.unparse(elt))
    if isinstance(op, ast.IfExp):
        if _same(op.test, 'value is None'):
            none_op, val_op = op.body, op.orelse
        elif _same(op.test, 'value is not None'):
            none_op, val_op = op.orelse, op.body
        else:
            raise ExtractError('_SO_columnClause: unknown test %s' % ast.unparse(op.test))
        return _cond_op(_const_str(none_op, 'op')), _cond_op(_const_str(val_op, 'op'))
    s = _cond_op(_const_str(op, 'operator'))
    return s, s


def munge(repo):
    tree = parse(repo, 'sqlobject/sresults.py')
    cls = find_class(tree, 'SelectResults')
    fn = find_func(cls, '_mungeOrderBy')
    body = strip_doc(fn.body)
    first = body[0]
    if not (isinstance(first, ast.If) and isinstance(first.test, ast.BoolOp) and isinstance(first.test.op, ast.And)
            and len(first.test.values) == 2 and _same(first.test.values[0], 'isinstance(orderBy, string_type)')):
        raise ExtractError('_mungeOrderBy: first statement is not the prefix test')
    sw = first.test.values[1]
    if not (isinstance(sw, ast.Call) and ast.unparse(sw.func) == 'orderBy.startswith' and len(sw.args) == 1):
        raise ExtractError('_mungeOrderBy: expected orderBy.startswith(<prefix>)')
    prefix = _const_str(sw.args[0], 'prefix')
    if len(prefix) != 1:
        raise ExtractError('_mungeOrderBy: prefix %r is not one character' % prefix)

    def desc_of(stmts, strip_expected):
        strip = None
        desc = None
        for st in stmts:
            if isinstance(st, ast.Assign) and ast.unparse(st.targets[0]) == 'orderBy':
                if _same(st.value, 'orderBy[1:]'):
                    strip = 1
                else:
                    raise ExtractError('_mungeOrderBy: unexpected strip %s' % ast.unparse(st))
            elif isinstance(st, ast.Assign) and ast.unparse(st.targets[0]) == 'desc' \
                    and isinstance(st.value, ast.Constant) and isinstance(st.value.value, bool):
                desc = st.value.value
            else:
                raise ExtractError('_mungeOrderBy: unexpected statement %s' % ast.unparse(st))
        if desc is None or (strip or 0) != strip_expected:
            raise ExtractError('_mungeOrderBy: prefix branch does not set desc / strip as expected')
        return desc
    d_pref = desc_of(first.body, len(prefix))
    d_plain = desc_of(first.orelse, 0)
    # the `if desc:` returns
    branches = []
    for node in ast.walk(fn):
        if isinstance(node, ast.If) and _same(node.test, 'desc'):
            def kind(stmts):
                if len(stmts) != 1 or not isinstance(stmts[0], ast.Return):
                    raise ExtractError('_mungeOrderBy: `if desc` branch is not a single return')
                v = stmts[0].value
                if isinstance(v, ast.Call) and ast.unparse(v.func) in ('sqlbuilder.DESC', 'DESC') and len(v.args) == 1 \
                        and isinstance(v.args[0], ast.Name):
                    return True, v.args[0].id
                if isinstance(v, ast.Name):
                    return False, v.id
                raise ExtractError('_mungeOrderBy: unexpected return %s' % ast.unparse(v))
            (b, n1), (e, n2) = kind(node.body), kind(node.orelse)
            if n1 != n2:
                raise ExtractError('_mungeOrderBy: the two returns of `if desc` differ in operand')
            branches.append((node.lineno, n1, b, e))
    branches.sort()
    if [n for _, n, _, _ in branches] != ['val', 'orderBy']:
        raise ExtractError('_mungeOrderBy: expected the column and the raw-string `if desc`, got %r' % (branches,))
    # the column lookup
    src = ast.unparse(fn)
    if 'if orderBy in self.sourceClass.sqlmeta.columns:' not in src \
            or 'val = getattr(self.sourceClass.q, self.sourceClass.sqlmeta.columns[orderBy].name)' not in src \
            or 'orderBy = sqlbuilder.SQLConstant(orderBy)' not in src:
        raise ExtractError('_mungeOrderBy: column lookup / SQLConstant fallback changed')
    # reversed / distinct / orderBy / filter one-liners
    for name, want in (('reversed', "return self.clone(reversed=not self.ops.get('reversed', False))"),
                       ('distinct', 'return self.clone(distinct=True)'),
                       ('orderBy', 'return self.clone(orderBy=orderBy)')):
        got = strip_doc(find_func(cls, name).body)
        if len(got) != 1 or not _same_stmt(got[0], want):
            raise ExtractError('SelectResults.%s changed: %s' % (name, ast.unparse(find_func(cls, name))))
    flt = ast.unparse(find_func(cls, 'filter'))
    if 'return self.newClause(sqlbuilder.AND(clause, filter_clause))' not in flt or \
            "if filter_clause is None:\n        return self" not in flt:
        raise ExtractError('SelectResults.filter changed')
    return prefix, d_pref, d_plain, branches


def desc_render(repo):
    tree = parse(repo, 'sqlobject/sqlbuilder.py')
    fn = find_func(find_class(tree, 'DESC'), '__sqlrepr__')
    body = strip_doc(fn.body)
    cancels = False
    if len(body) == 2 and isinstance(body[0], ast.If) and _same(body[0].test, 'isinstance(self.expr, DESC)') \
            and len(body[0].body) == 1 and _same_stmt(body[0].body[0], 'return sqlrepr(self.expr.expr, db)') \
            and not body[0].orelse:
        cancels = True
        body = body[1:]
    if len(body) != 1 or not isinstance(body[0], ast.Return):
        raise ExtractError('DESC.__sqlrepr__: unexpected body: %s' % ast.unparse(fn))
    v = body[0].value
    if not (isinstance(v, ast.BinOp) and isinstance(v.op, ast.Mod) and _same(v.right, 'sqlrepr(self.expr, db)')):
        raise ExtractError('DESC.__sqlrepr__: unexpected return: %s' % ast.unparse(v))
    fmt = _const_str(v.left, 'DESC format')
    if not fmt.startswith('%s'):
        raise ExtractError('DESC format %r' % fmt)
    suffix = fmt[2:]
    if suffix.strip().upper() == 'DESC' and suffix.startswith(' '):
        descending = True
    elif suffix.strip().upper() in ('', 'ASC'):
        descending = False
    else:
        raise ExtractError('DESC format %r' % fmt)
    return cancels, descending, suffix


def reverser(repo):
    tree = parse(repo, 'sqlobject/sqlbuilder.py')
    fn = find_func(find_class(tree, 'Select'), '__sqlrepr__')
    found = None
    for node in ast.walk(fn):
        if isinstance(node, ast.If) and _same(node.test, "self.ops['reversed']"):
            found = node
    if found is None:
        raise ExtractError("Select.__sqlrepr__: `if self.ops['reversed']` not found")

    def kind(stmts):
        if len(stmts) != 1:
            raise ExtractError('Select.__sqlrepr__: reverser branch has several statements')
        st = stmts[0]
        if _same_stmt(st, 'reverser = DESC'):
            return True
        if isinstance(st, ast.FunctionDef) and st.name == 'reverser' and len(st.body) == 1 \
                and _same_stmt(st.body[0], 'return x') and [a.arg for a in st.args.args] == ['x']:
            return False
        raise ExtractError('Select.__sqlrepr__: unknown reverser %s' % ast.unparse(st))
    when_rev, when_not = kind(found.body), kind(found.orelse)
    # the place where it is applied: every element of a list/tuple, or the single expression
    src = ast.unparse(fn)
    want_list = "select += ' ORDER BY %s' % ', '.join([_str_or_sqlrepr(reverser(_x), db) for _x in orderBy])"
    want_one = "select += ' ORDER BY %s' % _str_or_sqlrepr(reverser(orderBy), db)"
    guard = "if self.ops['orderBy'] is not NoDefault and self.ops['orderBy'] is not None:"
    if want_list not in src or want_one not in src or guard not in src \
            or 'if isinstance(orderBy, (list, tuple)):' not in src:
        raise ExtractError('Select.__sqlrepr__: the ORDER BY rendering changed shape')
    if src.count('reverser(') != 3:     # def + two applications
        raise ExtractError('Select.__sqlrepr__: reverser is applied in an unexpected number of places')
    return when_rev, when_not


def count_items(repo):
    tree = parse(repo, 'sqlobject/sresults.py')
    cls = find_class(tree, 'SelectResults')
    fn = find_func(cls, 'count')
    node = None
    for st in strip_doc(fn.body):
        if isinstance(st, ast.If) and _same(st.test, "self.ops.get('distinct')"):
            node = st
    if node is None:
        raise ExtractError("count(): `if self.ops.get('distinct')` not found")

    def item(stmts):
        if len(stmts) != 1 or not isinstance(stmts[0], ast.Assign) or ast.unparse(stmts[0].targets[0]) != 'count':
            raise ExtractError('count(): unexpected branch %s' % ast.unparse(stmts[0]))
        v = stmts[0].value
        if not (isinstance(v, ast.Call) and ast.unparse(v.func) == 'self.accumulate' and len(v.args) == 1):
            raise ExtractError('count(): unexpected accumulate call %s' % ast.unparse(v))
        a = v.args[0]
        if isinstance(a, ast.Constant):
            s = a.value
            arg = None
        elif isinstance(a, ast.BinOp) and isinstance(a.op, ast.Mod):
            s = _const_str(a.left, 'count format')
            arg = ast.unparse(a.right)
        else:
            raise ExtractError('count(): unexpected expression %s' % ast.unparse(a))
        s1 = ''.join(s.split()).upper()
        if s1 == 'COUNT(*)' and arg is None:
            return '.star'
        if s1 == 'COUNT(DISTINCT%S)' and arg == 'self._getConnection().sqlrepr(self.sourceClass.q.id)':
            return '.distinctId'
        raise ExtractError('count(): unknown count expression %r %% %s' % (s, arg))
    return item(node.body), item(node.orelse)


def acc_many(repo):
    tree = parse(repo, 'sqlobject/sresults.py')
    cls = find_class(tree, 'SelectResults')
    fn = find_func(cls, 'accumulateMany')
    node = None
    fmt_ok = False
    for st in ast.walk(fn):
        if isinstance(st, ast.If) and _same(st.test, "self.ops.get('distinct')"):
            node = st
        if isinstance(st, ast.Assign) and ast.unparse(st.targets[0]) == 'expression':
            if _same(st.value, "'%s(%s%s)' % (func_name, distinct, attribute)"):
                fmt_ok = True
    if node is None or not fmt_ok:
        raise ExtractError('accumulateMany: distinct test or expression format changed')

    def word(stmts):
        if len(stmts) != 1 or not isinstance(stmts[0], ast.Assign) or ast.unparse(stmts[0].targets[0]) != 'distinct':
            raise ExtractError('accumulateMany: unexpected branch')
        s = _const_str(stmts[0].value, 'distinct word')
        if s == 'DISTINCT ':
            return True
        if s == '':
            return False
        raise ExtractError('accumulateMany: unknown distinct word %r' % s)
    fns = {}
    for meth in ('sum', 'min', 'max', 'avg'):
        f = find_func(cls, meth)
        body = strip_doc(f.body)
        if not (len(body) == 1 and isinstance(body[0], ast.Return) and isinstance(body[0].value, ast.Call)
                and ast.unparse(body[0].value.func) == 'self.accumulateOne' and len(body[0].value.args) == 2
                and ast.unparse(body[0].value.args[1]) == 'attribute'):
            raise ExtractError('SelectResults.%s changed: %s' % (meth, ast.unparse(f)))
        name = _const_str(body[0].value.args[0], 'function name').strip().upper()
        if name not in ('SUM', 'MIN', 'MAX', 'AVG', 'COUNT'):
            raise ExtractError('SelectResults.%s uses unknown SQL function %r' % (meth, name))
        fns[meth] = name
    one = strip_doc(find_func(cls, 'accumulateOne').body)
    if len(one) != 1 or not _same_stmt(one[0], 'return self.accumulateMany((func_name, attribute))'):
        raise ExtractError('accumulateOne changed')
    return word(node.body), word(node.orelse), fns


def acc_select(repo):
    tree = parse(repo, 'sqlobject/dbconnection.py')
    fn = find_func(find_class(tree, 'DBAPI'), 'accumulateSelect')
    body = strip_doc(fn.body)
    if not isinstance(body[0], ast.Assign) or ast.unparse(body[0].targets[0]) != 'q':
        raise ExtractError('accumulateSelect: first statement changed')
    chain = []
    v = body[0].value
    while isinstance(v, ast.Call) and isinstance(v.func, ast.Attribute):
        chain.append((v.func.attr, [ast.unparse(a) for a in v.args], [(k.arg, ast.unparse(k.value)) for k in v.keywords]))
        v = v.func.value
    chain.reverse()
    if ast.unparse(v) != 'select' or not chain or chain[0] != ('queryForSelect', [], []):
        raise ExtractError('accumulateSelect: does not start from select.queryForSelect()')
    new_items = unlimited = order_none = False
    for name, args, kws in chain[1:]:
        if name == 'newItems' and args == ['expressions'] and not kws:
            new_items = True
        elif name == 'unlimited' and not args and not kws:
            unlimited = True
        elif name == 'orderBy' and args == ['None'] and not kws:
            order_none = True
        else:
            raise ExtractError('accumulateSelect: unknown step .%s(%s)' % (name, ', '.join(args)))
    if not new_items:
        raise ExtractError('accumulateSelect: the items are not replaced')
    rest = '\n'.join(ast.unparse(s) for s in body[1:])
    if rest != 'q = self.sqlrepr(q)\nval = self.queryOne(q)\nif len(expressions) == 1:\n    val = val[0]\nreturn val':
        raise ExtractError('accumulateSelect: tail changed')
    # Select.unlimited / Select.orderBy keep the other options
    sel = find_class(parse(repo, 'sqlobject/sqlbuilder.py'), 'Select')
    for name, want in (('unlimited', 'return self.clone(limit=NoDefault, start=0, end=None)'),
                       ('orderBy', 'return self.clone(orderBy=orderBy)'),
                       ('newItems', 'return self.clone(items=items)')):
        got = strip_doc(find_func(sel, name).body)
        if len(got) != 1 or not _same_stmt(got[0], want):
            raise ExtractError('Select.%s changed' % name)
    return unlimited, order_none


def get_one(repo):
    tree = parse(repo, 'sqlobject/sresults.py')
    fn = find_func(find_class(tree, 'SelectResults'), 'getOne')
    body = [s for s in strip_doc(fn.body) if not isinstance(s, ast.ImportFrom)]
    if not body or not _same_stmt(body[0], 'results = list(self)'):
        raise ExtractError('getOne: does not start with results = list(self)')
    out = []
    for st in body[1:]:
        if isinstance(st, ast.If) and not st.orelse:
            t = st.test
            if _same(t, 'not results') or _same(t, 'len(results) == 0'):
                g = '.empty'
            elif isinstance(t, ast.Compare) and len(t.ops) == 1 and _same(t.left, 'len(results)') \
                    and isinstance(t.comparators[0], ast.Constant) and isinstance(t.comparators[0].value, int):
                n = t.comparators[0].value
                if isinstance(t.ops[0], ast.Gt):
                    g = '.lenGt %d' % n
                elif isinstance(t.ops[0], ast.GtE) and n >= 1:
                    g = '.lenGt %d' % (n - 1)
                else:
                    raise ExtractError('getOne: unknown guard %s' % ast.unparse(t))
            else:
                raise ExtractError('getOne: unknown guard %s' % ast.unparse(t))
            out.append((g, _one_action(st.body)))
        elif isinstance(st, ast.Return):
            out.append(('.always', _one_action([st])))
        else:
            raise ExtractError('getOne: unexpected statement %s' % ast.unparse(st))
    return out


def _one_action(stmts):
    src = '\n'.join(ast.unparse(s) for s in stmts)
    if len(stmts) == 1 and isinstance(stmts[0], ast.Return) and _same(stmts[0].value, 'results[0]'):
        return '.first'
    if len(stmts) == 1 and isinstance(stmts[0], ast.Raise) and 'SQLObjectIntegrityError' in ast.unparse(stmts[0].exc):
        return '.integrityError'
    if len(stmts) == 2 and isinstance(stmts[0], ast.If) and _same(stmts[0].test, 'default is sqlbuilder.NoDefault') \
            and len(stmts[0].body) == 1 and isinstance(stmts[0].body[0], ast.Raise) \
            and ast.unparse(stmts[0].body[0].exc).startswith('main.SQLObjectNotFound(') \
            and not stmts[0].orelse and _same_stmt(stmts[1], 'return default'):
        return '.defaultOrNotFound'
    raise ExtractError('getOne: unknown action:\n%s' % src)


def alt_miss(repo):
    tree = parse(repo, 'sqlobject/main.py')
    cls = find_class(tree, 'SQLObject')
    fn = find_func(cls, '_SO_fetchAlternateID')
    body = strip_doc(fn.body)
    if not _same_stmt(body[0], 'result, obj = cls._findAlternateID(name, dbName, value, connection)'):
        raise ExtractError('_SO_fetchAlternateID: first statement changed')
    miss = body[1]
    if not (isinstance(miss, ast.If) and _same(miss.test, 'not result') and not miss.orelse):
        raise ExtractError('_SO_fetchAlternateID: `if not result` not found')

    def terminal(stmts):
        """every path through stmts ends in raise SQLObjectNotFound -> 'raise'; in return None -> 'none'"""
        last = stmts[-1]
        if isinstance(last, ast.Raise):
            if ast.unparse(last.exc).startswith('SQLObjectNotFound('):
                return {'raise'}
            raise ExtractError('_SO_fetchAlternateID: raises %s' % ast.unparse(last.exc))
        if isinstance(last, ast.Return):
            if last.value is None or (isinstance(last.value, ast.Constant) and last.value.value is None):
                return {'none'}
            raise ExtractError('_SO_fetchAlternateID: miss returns %s' % ast.unparse(last))
        if isinstance(last, ast.If) and last.orelse:
            return terminal(last.body) | terminal(last.orelse)
        raise ExtractError('_SO_fetchAlternateID: miss branch falls through: %s' % ast.unparse(last))
    kinds = terminal(miss.body)
    if kinds == {'raise'}:
        action = '.raiseNotFound'
    elif kinds == {'none'}:
        action = '.returnNone'
    else:
        raise ExtractError('_SO_fetchAlternateID: mixed miss behaviour %r' % (kinds,))
    # `_findAlternateID` builds `AND(*conditions)` with, per (name, converted value): IS NULL for None, else
    # `field = value` (the model's `eqOrNull`)
    find_fn = find_func(cls, '_findAlternateID')
    want_loop = ("for _n, _v in zip(name, new_value):\n"
                 "    if _v is None:\n"
                 "        conditions.append(sqlbuilder.ISNULL(getattr(cls.q, _n)))\n"
                 "    else:\n"
                 "        conditions.append(sqlbuilder.SQLOp('=', getattr(cls.q, _n), _v))\n")
    stmts = strip_doc(find_fn.body)
    loops = [i for i, st in enumerate(stmts) if isinstance(st, ast.For) and ast.unparse(st.target) == '(_n, _v)']
    if len(loops) != 1 or not _same_stmt(stmts[loops[0]], want_loop):
        raise ExtractError('_findAlternateID: condition loop changed')
    i = loops[0]
    if i == 0 or not _same_stmt(stmts[i - 1], 'conditions = []') or i + 1 >= len(stmts) \
            or not _same_stmt(stmts[i + 1], 'condition = sqlbuilder.AND(*conditions)'):
        raise ExtractError('_findAlternateID: condition changed')
    if sum(1 for n in ast.walk(find_fn) if isinstance(n, ast.Name) and n.id in ('conditions', 'condition')
           and isinstance(n.ctx, ast.Store)) != 2:
        raise ExtractError('_findAlternateID: condition rebound')
    # the unique-index lookup ends in selectBy(**kw).getOne() without a default
    idx = find_func(find_class(parse(repo, 'sqlobject/index.py'), 'SODatabaseIndex'), 'get')
    last = idx.body[-1]
    if not _same_stmt(last, 'return self.soClass.selectBy(connection=connection, **kw).getOne()'):
        raise ExtractError('SODatabaseIndex.get: tail changed: %s' % ast.unparse(last))
    return action


def nary(repo):
    """AND(*ops) / OR(*ops): (operator of the SQLOp built, helper called on the tail)"""
    tree = parse(repo, 'sqlobject/sqlbuilder.py')
    out = {}
    for name in ('AND', 'OR'):
        fn = find_func(tree, name)
        src = ast.unparse(fn)
        found = None
        for op in ('AND', 'OR'):
            for tail in ('AND', 'OR'):
                want = ("def %s(*ops):\n    if not ops:\n        return None\n    op1 = ops[0]\n    ops = ops[1:]\n"
                        "    if ops:\n        return SQLOp('%s', op1, %s(*ops))\n    else:\n        return op1" % (name, op, tail))
                if src == want:
                    found = ('.' + op.lower(), '.' + tail.lower())
        if found is None:
            raise ExtractError('%s(*ops) changed shape:\n%s' % (name, src))
        out[name] = found
    ops = find_class(tree, 'SQLExpression')
    for meth, op in (('__and__', 'AND'), ('__or__', 'OR')):
        got = strip_doc(find_func(ops, meth).body)
        if len(got) != 1 or not _same_stmt(got[0], "return SQLOp('%s', self, other)" % op):
            raise ExtractError('SQLExpression.%s changed' % meth)
    return out


def iter_guard(repo):
    tree = parse(repo, 'sqlobject/dbconnection.py')
    fn = find_func(find_class(tree, 'Iteration'), 'next')
    body = strip_doc(fn.body)
    if not _same_stmt(body[0], 'result = self.cursor.fetchone()'):
        raise ExtractError('Iteration.next: first statement changed')
    guards = [st for st in body if isinstance(st, ast.If) and len(st.body) == 1
              and isinstance(st.body[0], ast.Return)
              and (st.body[0].value is None or (isinstance(st.body[0].value, ast.Constant) and st.body[0].value.value is None))]
    if len(guards) != 1 or guards[0].orelse:
        raise ExtractError('Iteration.next: expected exactly one `return None` guard')
    t = guards[0].test
    if _same(t, 'result[0] is None'):
        g = '.isNone'
    elif _same(t, 'not result[0]'):
        g = '.falsy'
    else:
        raise ExtractError('Iteration.next: unknown guard %s' % ast.unparse(t))
    rest = ast.unparse(fn)
    if "obj = self.select.sourceClass.get(result[0], selectResults=result[1:], connection=self.dbconn)" not in rest \
            or "if result is None:\n        self._cleanup()\n        raise StopIteration" not in rest:
        raise ExtractError('Iteration.next: body changed')
    it = strip_doc(find_func(find_class(parse(repo, 'sqlobject/sresults.py'), 'SelectResults'), '__iter__').body)
    if len(it) != 1 or not _same_stmt(it[0], 'return iter(list(self.lazyIter()))'):
        raise ExtractError('SelectResults.__iter__ changed')
    return g


def seq_kinds(repo):
    """SelectResults.__init__: which containers of order keys are translated key by key"""
    tree = parse(repo, 'sqlobject/sresults.py')
    fn = find_func(find_class(tree, 'SelectResults'), '__init__')
    node = None
    for st in fn.body:
        if isinstance(st, ast.If) and isinstance(st.test, ast.Call) and ast.unparse(st.test.func) == 'isinstance' \
                and len(st.test.args) == 2 and ast.unparse(st.test.args[0]) == 'orderBy':
            node = st
    if node is None:
        raise ExtractError('SelectResults.__init__: the isinstance test on orderBy was not found')
    ty = node.test.args[1]
    names = [ast.unparse(e) for e in ty.elts] if isinstance(ty, ast.Tuple) else [ast.unparse(ty)]
    kinds = []
    for n in names:
        if n not in ('list', 'tuple'):
            raise ExtractError('SelectResults.__init__: unknown container type %s' % n)
        kinds.append('.' + n)
    ok_body = len(node.body) == 1 and (
        _same_stmt(node.body[0], 'orderBy = list(map(self._mungeOrderBy, orderBy))')
        or _same_stmt(node.body[0], 'orderBy = [self._mungeOrderBy(key) for key in orderBy]')
        or _same_stmt(node.body[0], 'orderBy = [self._mungeOrderBy(x) for x in orderBy]'))
    ok_else = len(node.orelse) == 1 and _same_stmt(node.orelse[0], 'orderBy = self._mungeOrderBy(orderBy)')
    if not ok_body or not ok_else:
        raise ExtractError('SelectResults.__init__: the order munging changed: %s' % ast.unparse(node))
    src = ast.unparse(fn)
    if "if ops.get('orderBy', sqlbuilder.NoDefault) is sqlbuilder.NoDefault:\n        ops['orderBy'] = sourceClass.sqlmeta.defaultOrder" not in src \
            or "ops['dbOrderBy'] = orderBy" not in src:
        raise ExtractError('SelectResults.__init__: defaultOrder / dbOrderBy handling changed')
    return kinds


def _b(x):
    return 'true' if x else 'false'


def extract(repo):
    none_op, val_op = column_clause(repo)
    prefix, d_pref, d_plain, branches = munge(repo)
    cancels, descending, suffix = desc_render(repo)
    rev_when, rev_not = reverser(repo)
    cnt_distinct, cnt_plain = count_items(repo)
    w_distinct, w_plain, fns = acc_many(repo)
    unlimited, order_none = acc_select(repo)
    one = get_one(repo)
    miss = alt_miss(repo)
    nr = nary(repo)
    guard = iter_guard(repo)
    kinds = seq_kinds(repo)
    L = [HEADER % 'query', 'import SqlObjVerif.Model.QuerySyn', '', 'namespace SqlObjVerif.Query.Extracted', '']
    L += ['/-- `_SO_columnClause`: operator used when the keyword value is None / is a value -/',
          'def clauseOpNone : CondOp := %s' % none_op,
          'def clauseOpValue : CondOp := %s' % val_op, '',
          '/-- `_mungeOrderBy`: the prefix character, and the `desc` flag with / without it -/',
          'def descPrefix : Char := Char.ofNat %d' % ord(prefix),
          'def descWhenPrefixed : Bool := %s' % _b(d_pref),
          'def descWhenPlain : Bool := %s' % _b(d_plain),
          '/-- `if desc: return DESC(x) else: return x` for a column name / for a raw string:',
          '    (wraps when desc, wraps when not desc) -/',
          'def mungeColumn : Bool × Bool := (%s, %s)' % (_b(branches[0][2]), _b(branches[0][3])),
          'def mungeRaw : Bool × Bool := (%s, %s)' % (_b(branches[1][2]), _b(branches[1][3])), '',
          '/-- `DESC.__sqlrepr__`: DESC of DESC renders the inner expression; the format marks descending -/',
          'def descOfDescCancels : Bool := %s' % _b(cancels),
          'def descFormatDescending : Bool := %s' % _b(descending),
          'def descSuffix : String := %s' % lean_str(suffix), '',
          '/-- `Select.__sqlrepr__`: is `reverser` DESC when `reversed` is set / not set -/',
          'def reverserWhenReversed : Bool := %s' % _b(rev_when),
          'def reverserWhenNot : Bool := %s' % _b(rev_not), '',
          '/-- `SelectResults.count` -/',
          'def countWhenDistinct : CountItem := %s' % cnt_distinct,
          'def countWhenPlain : CountItem := %s' % cnt_plain, '',
          '/-- `accumulateMany`: is the word DISTINCT put inside the function call -/',
          'def aggDistinctWhenDistinct : Bool := %s' % _b(w_distinct),
          'def aggDistinctWhenPlain : Bool := %s' % _b(w_plain),
          'def sumFn : AggFn := .%s' % fns['sum'],
          'def minFn : AggFn := .%s' % fns['min'],
          'def maxFn : AggFn := .%s' % fns['max'],
          'def avgFn : AggFn := .%s' % fns['avg'], '',
          '/-- `accumulateSelect`: `.unlimited()` and `.orderBy(None)` present in the clone chain -/',
          'def accUnlimited : Bool := %s' % _b(unlimited),
          'def accOrderNone : Bool := %s' % _b(order_none), '',
          '/-- `getOne`: guards in source order with their action -/',
          'def getOneBranches : List (OneGuard × OneAction) := [%s]' % ', '.join('(%s, %s)' % ga for ga in one), '',
          '/-- `_SO_fetchAlternateID`: what happens when no row matched -/',
          'def altMiss : MissAction := %s' % miss, '',
          '/-- `AND(*ops)` / `OR(*ops)`: (connective of the SQLOp built, helper applied to the tail) -/',
          'def andFn : BoolOp × BoolOp := (%s, %s)' % nr['AND'],
          'def orFn : BoolOp × BoolOp := (%s, %s)' % nr['OR'], '',
          '/-- `SelectResults.__init__`: containers of order keys that are translated key by key -/',
          'def mungedSeqKinds : List SeqKind := [%s]' % ', '.join(kinds), '',
          '/-- `Iteration.next`: when a fetched row is returned as None -/',
          'def iterNullGuard : IdGuard := %s' % guard, '',
          'end SqlObjVerif.Query.Extracted']
    return '\n'.join(L) + '\n'
