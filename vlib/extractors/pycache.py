"""TRANSLATOR: every method of `CacheFactory` (sqlobject/cache.py) -> a PyCache block.

Each method body is translated statement by statement into the deep embedding of
`lean/SqlObjVerif/Model/PyCache.lean`.  Anything outside the fragment raises ExtractError (the
framework then searches for a failing input and reports).  Conventions of the translation:
  * locals are numbered in order of first binding, the parameters after `self` first
    (`<m>_nargs`, `<m>_nlocals`); a behaviour-preserving rename of a local gives the same term;
  * list-valued locals (bound by `list(self.d.keys())`, `list(self.d.values())`, `[]`) are numbered
    separately (`<m>_nlists`); a name is either always a list or never;
  * the body of the n-th `for` loop of a method (source order) becomes its own definition
    `<m>_for<n>` so that the loop lemmas can name it;
  * a `for` over `self.d.items()/values()` whose body writes `self.d` or calls a method is refused
    (Python: RuntimeError "dictionary changed size during iteration"; the embedding iterates a snapshot),
    and so is a `for` over a list local whose body rebinds or calls a method of that list.
"""
import ast
from . import ExtractError, parse, find_class, find_func, strip_doc, HEADER

TARGET = 'PyCache'

METHODS = ['tryGet', 'get', 'put', 'finishPut', 'created', 'cull', 'clear', 'expire', 'expireAll',
           'allIDs', 'getAll']
INT_ATTRS = ('cullCount', 'cullOffset', 'cullFrequency', 'cullFraction')
DICT_ATTRS = ('cache', 'expiredCache')
_CMP = {ast.Lt: '.lt', ast.LtE: '.le', ast.Gt: '.gt', ast.GtE: '.ge'}


def _self_attr(n):
    """name of `self.<name>` or None"""
    if isinstance(n, ast.Attribute) and isinstance(n.value, ast.Name) and n.value.id == 'self':
        return n.attr
    return None


def _self_dict(n):
    a = _self_attr(n)
    return a if a in DICT_ATTRS else None


def _plain_call(n, nargs):
    return isinstance(n, ast.Call) and not n.keywords and len(n.args) == nargs \
        and not any(isinstance(a, ast.Starred) for a in n.args)


def _is_none(n):
    return isinstance(n, ast.Constant) and n.value is None


class Method(object):
    def __init__(self, fn):
        self.fn = fn
        self.name = fn.name
        a = fn.args
        if a.vararg or a.kwarg or a.kwonlyargs or a.defaults or a.posonlyargs or not a.args \
                or a.args[0].arg != 'self' or fn.decorator_list:
            raise ExtractError('unexpected signature of %s' % fn.name)
        self.params = [x.arg for x in a.args[1:]]
        self.vars = list(self.params)
        self.lists = []
        self.loops = []          # translated loop bodies, source order
        self._collect(strip_doc(fn.body))
        self.body = self.block(strip_doc(fn.body))

    # ---- name classification -------------------------------------------------------------
    def _is_list_value(self, v):
        if isinstance(v, ast.List) and not v.elts:
            return True
        if _plain_call(v, 1) and isinstance(v.func, ast.Name) and v.func.id == 'list':
            inner = v.args[0]
            if _plain_call(inner, 0) and isinstance(inner.func, ast.Attribute) \
                    and inner.func.attr in ('keys', 'values') and _self_dict(inner.func.value):
                return True
        return False

    def _collect(self, stmts):
        listnames, plain = [], []

        def bind(name, is_list):
            (listnames if is_list else plain).append(name)

        class V(ast.NodeVisitor):
            def visit_Assign(s, n):
                for t in n.targets:
                    if isinstance(t, ast.Name):
                        bind(t.id, self._is_list_value(n.value))
                s.generic_visit(n)

            def visit_AugAssign(s, n):
                if isinstance(n.target, ast.Name):
                    bind(n.target.id, False)
                s.generic_visit(n)

            def visit_For(s, n):
                ts = n.target.elts if isinstance(n.target, ast.Tuple) else [n.target]
                for t in ts:
                    if not isinstance(t, ast.Name):
                        raise ExtractError('%s: loop target outside the fragment' % self.name)
                    bind(t.id, False)
                s.generic_visit(n)

            def visit_FunctionDef(s, n):
                raise ExtractError('%s: nested function' % self.name)

            visit_Lambda = visit_FunctionDef

            def visit_NamedExpr(s, n):
                raise ExtractError('%s: walrus' % self.name)

            def visit_With(s, n):
                raise ExtractError('%s: with statement' % self.name)

            def visit_Global(s, n):
                raise ExtractError('%s: global' % self.name)

            visit_Nonlocal = visit_Global

            def visit_ExceptHandler(s, n):
                if n.name:
                    raise ExtractError('%s: except … as name' % self.name)
                s.generic_visit(n)

        for st in stmts:
            V().visit(st)
        for n in listnames:
            if n in plain or n in self.params:
                raise ExtractError('%s: %s is both a list and not a list' % (self.name, n))
            if n not in self.lists:
                self.lists.append(n)
        for n in plain:
            if n not in self.vars:
                self.vars.append(n)

    def var(self, name):
        if name in self.vars:
            return self.vars.index(name)
        raise ExtractError('%s: name %s is not a parameter or local' % (self.name, name))

    def lst(self, node):
        if isinstance(node, ast.Name) and node.id in self.lists:
            return self.lists.index(node.id)
        return None

    # ---- expressions ---------------------------------------------------------------------
    def dict_attr(self, n):
        d = _self_dict(n)
        if d is None:
            raise ExtractError('%s: not a dict of self: %s' % (self.name, ast.unparse(n)))
        return '.' + d

    def expr(self, n):
        if isinstance(n, ast.Name):
            return '(.var %d)' % self.var(n.id)
        if isinstance(n, ast.Constant):
            if n.value is None:
                return '.none'
            if isinstance(n.value, int) and not isinstance(n.value, bool) and n.value >= 0:
                return '(.int %d)' % n.value
        a = _self_attr(n)
        if a in INT_ATTRS:
            return '(.attr .%s)' % a
        if isinstance(n, ast.BinOp) and isinstance(n.op, (ast.Add, ast.Mod)):
            return '(.%s %s %s)' % ('add' if isinstance(n.op, ast.Add) else 'mod', self.expr(n.left), self.expr(n.right))
        if isinstance(n, ast.Subscript) and not isinstance(n.slice, (ast.Slice, ast.Tuple)):
            if _self_dict(n.value):
                return '(.dictIdx %s %s)' % (self.dict_attr(n.value), self.expr(n.slice))
            l = self.lst(n.value)
            if l is not None:
                return '(.listIdx %d %s)' % (l, self.expr(n.slice))
        if isinstance(n, ast.Call) and not n.keywords:
            f = n.func
            if _plain_call(n, 1) and isinstance(f, ast.Attribute) and f.attr == 'get' and _self_dict(f.value):
                return '(.dictGet %s %s)' % (self.dict_attr(f.value), self.expr(n.args[0]))
            if _plain_call(n, 1) and isinstance(f, ast.Name) and f.id == 'ref':
                return '(.mkRef %s)' % self.expr(n.args[0])
            if _plain_call(n, 1) and isinstance(f, ast.Name) and f.id == 'len' and self.lst(n.args[0]) is not None:
                return '(.listLen %d)' % self.lst(n.args[0])
            if _plain_call(n, 0) and isinstance(f, (ast.Name, ast.Subscript)):
                return '(.callRef %s)' % self.expr(f)
        raise ExtractError('%s: expression outside the fragment: %s' % (self.name, ast.unparse(n)))

    def cond(self, n):
        if isinstance(n, ast.UnaryOp) and isinstance(n.op, ast.Not):
            return '(.not %s)' % self.cond(n.operand)
        if isinstance(n, ast.BoolOp):
            op = 'and' if isinstance(n.op, ast.And) else 'or'
            parts = [self.cond(v) for v in n.values]
            out = parts[-1]
            for p in reversed(parts[:-1]):
                out = '(.%s %s %s)' % (op, p, out)
            return out
        if _self_attr(n) == 'doCache':
            return '.doCache'
        if isinstance(n, ast.Compare):
            if len(n.ops) != 1:
                raise ExtractError('%s: chained comparison: %s' % (self.name, ast.unparse(n)))
            op, rhs = n.ops[0], n.comparators[0]
            if isinstance(op, ast.Is) and _is_none(rhs):
                return '(.isNone %s)' % self.expr(n.left)
            if isinstance(op, ast.IsNot) and _is_none(rhs):
                return '(.isNotNone %s)' % self.expr(n.left)
            if isinstance(op, ast.In) and _self_dict(rhs):
                return '(.inDict %s %s)' % (self.expr(n.left), self.dict_attr(rhs))
            if isinstance(op, ast.NotIn) and _self_dict(rhs):
                return '(.not (.inDict %s %s))' % (self.expr(n.left), self.dict_attr(rhs))
            if type(op) in _CMP:
                return '(.cmp %s %s %s)' % (_CMP[type(op)], self.expr(n.left), self.expr(rhs))
            raise ExtractError('%s: comparison outside the fragment: %s' % (self.name, ast.unparse(n)))
        return '(.truthy %s)' % self.expr(n)

    # ---- statements ----------------------------------------------------------------------
    def _writes(self, stmts, d):
        """does the block write `self.<d>` or call a method of self?"""
        for st in stmts:
            for n in ast.walk(st):
                if isinstance(n, (ast.Assign, ast.AugAssign, ast.Delete)):
                    ts = n.targets if not isinstance(n, ast.AugAssign) else [n.target]
                    for t in ts:
                        base = t.value if isinstance(t, ast.Subscript) else t
                        if _self_attr(base) == d:
                            return True
                if isinstance(n, ast.Call) and isinstance(n.func, ast.Attribute):
                    if _self_attr(n.func.value) == d and n.func.attr not in ('get', 'keys', 'values', 'items'):
                        return True
                    if isinstance(n.func.value, ast.Name) and n.func.value.id == 'self':
                        return True
        return False

    def loop(self, body):
        idx = len(self.loops)
        self.loops.append(None)
        self.loops[idx] = self.block(body)
        return '%s_for%d' % (self.name, idx)

    def stmt(self, n):
        m = self.name
        if isinstance(n, ast.Pass):
            return '.pass'
        if isinstance(n, ast.Return):
            if n.value is None or _is_none(n.value):
                return '.retNone'
            l = self.lst(n.value)
            if l is not None:
                return '(.retList %d)' % l
            return '(.ret %s)' % self.expr(n.value)
        if isinstance(n, ast.If):
            return '(.ite %s %s %s)' % (self.cond(n.test), self.block(n.body), self.block(n.orelse))
        if isinstance(n, ast.AugAssign):
            if not isinstance(n.op, (ast.Add, ast.Mod)):
                raise ExtractError('%s: augmented assignment outside the fragment: %s' % (m, ast.unparse(n)))
            n = ast.Assign(targets=[n.target], value=ast.BinOp(left=_load(n.target), op=n.op, right=n.value))
        if isinstance(n, ast.Assign) and len(n.targets) == 1:
            t, v = n.targets[0], n.value
            if isinstance(t, ast.Name):
                if t.id in self.lists:
                    l = self.lists.index(t.id)
                    if isinstance(v, ast.List):
                        return '(.listEmpty %d)' % l
                    inner = v.args[0]
                    return '(.list%s %d %s)' % (inner.func.attr.capitalize(), l, self.dict_attr(inner.func.value))
                return '(.assign %d %s)' % (self.var(t.id), self.expr(v))
            a = _self_attr(t)
            if a in INT_ATTRS:
                return '(.setAttr .%s %s)' % (a, self.expr(v))
            if a in DICT_ATTRS and isinstance(v, ast.Dict) and not v.keys:
                return '(.dictNew .%s)' % a
            if isinstance(t, ast.Subscript) and _self_dict(t.value) and not isinstance(t.slice, (ast.Slice, ast.Tuple)):
                return '(.dictSet %s %s %s)' % (self.dict_attr(t.value), self.expr(t.slice), self.expr(v))
        if isinstance(n, ast.Delete) and len(n.targets) == 1:
            t = n.targets[0]
            if isinstance(t, ast.Subscript) and _self_dict(t.value) and not isinstance(t.slice, (ast.Slice, ast.Tuple)):
                return '(.dictDel %s %s)' % (self.dict_attr(t.value), self.expr(t.slice))
        if isinstance(n, ast.Expr) and isinstance(n.value, ast.Call) and not n.value.keywords \
                and isinstance(n.value.func, ast.Attribute):
            c, f = n.value, n.value.func
            if _self_dict(f.value) and f.attr == 'pop' and _plain_call(c, 2) and _is_none(c.args[1]):
                return '(.dictPop %s %s)' % (self.dict_attr(f.value), self.expr(c.args[0]))
            if _self_dict(f.value) and f.attr == 'clear' and _plain_call(c, 0):
                return '(.dictClear %s)' % self.dict_attr(f.value)
            if _self_attr(f.value) == 'lock' and f.attr in ('acquire', 'release') and _plain_call(c, 0):
                return '.' + f.attr
            if isinstance(f.value, ast.Name) and f.value.id == 'self' and _plain_call(c, 0) and f.attr in METHODS:
                return '(.callSelf "%s")' % f.attr
            if f.attr == 'append' and _plain_call(c, 1) and self.lst(f.value) is not None:
                return '(.listAppend %d %s)' % (self.lst(f.value), self.expr(c.args[0]))
        if isinstance(n, ast.For) and not n.orelse:
            it, t = n.iter, n.target
            if isinstance(t, ast.Name) and self.lst(it) is not None:
                for sub in n.body:
                    for x in ast.walk(sub):
                        if (isinstance(x, ast.Name) and x.id == it.id and isinstance(x.ctx, (ast.Store, ast.Del))) or \
                                (isinstance(x, ast.Call) and isinstance(x.func, ast.Attribute)
                                 and isinstance(x.func.value, ast.Name) and x.func.value.id == it.id):
                            raise ExtractError('%s: loop over list %s changes it' % (m, it.id))
                return '(.forList %d %d %s)' % (self.var(t.id), self.lst(it), self.loop(n.body))
            if isinstance(t, ast.Name) and isinstance(it, ast.Call) and isinstance(it.func, ast.Name) \
                    and it.func.id == 'range' and not it.keywords and 1 <= len(it.args) <= 3:
                args = [self.expr(a) for a in it.args]
                if len(args) == 1:
                    args = ['(.int 0)'] + args
                if len(args) == 2:
                    args = args + ['(.int 1)']
                return '(.forRange %d %s %s %s %s)' % (self.var(t.id), args[0], args[1], args[2], self.loop(n.body))
            if _plain_call(it, 0) and isinstance(it.func, ast.Attribute) and _self_dict(it.func.value):
                d = _self_dict(it.func.value)
                if self._writes(n.body, d):
                    raise ExtractError('%s: loop over self.%s changes it or calls a method' % (m, d))
                if it.func.attr == 'items' and isinstance(t, ast.Tuple) and len(t.elts) == 2 \
                        and all(isinstance(e, ast.Name) for e in t.elts) and t.elts[0].id != t.elts[1].id:
                    return '(.forItems %d %d .%s %s)' % (self.var(t.elts[0].id), self.var(t.elts[1].id), d,
                                                         self.loop(n.body))
                if it.func.attr == 'values' and isinstance(t, ast.Name):
                    return '(.forValues %d .%s %s)' % (self.var(t.id), d, self.loop(n.body))
        if isinstance(n, ast.Try):
            out = None
            if n.handlers:
                if len(n.handlers) != 1 or not isinstance(n.handlers[0].type, ast.Name) \
                        or n.handlers[0].type.id != 'KeyError' or n.handlers[0].name:
                    raise ExtractError('%s: only `except KeyError:` is in the fragment' % m)
                out = '(.tryKey %s %s %s)' % (self.block(n.body), self.block(n.handlers[0].body), self.block(n.orelse))
            elif n.orelse:
                raise ExtractError('%s: try/else without except' % m)
            if n.finalbody:
                inner = ('(.cons %s\n    .nil)' % out) if out else self.block(n.body)
                out = '(.tryFinally %s %s)' % (inner, self.block(n.finalbody))
            if out:
                return out
        raise ExtractError('%s: statement outside the fragment: %s' % (m, ast.unparse(n).split('\n')[0]))

    def block(self, stmts):
        parts = [self.stmt(s) for s in stmts]
        out = '.nil'
        for p in reversed(parts):
            out = '(.cons %s\n    %s)' % (p, out)
        return out


def _load(t):
    t2 = ast.parse(ast.unparse(t), mode='eval').body
    return t2


def _check_init(fn):
    """`__init__` must still start the counters at 0 and create the dicts empty / the lock free"""
    src = [ast.unparse(s) for s in strip_doc(fn.body)]
    want = ['self.cullFrequency = cullFrequency', 'self.cullCount = 0', 'self.cullOffset = 0',
            'self.cullFraction = cullFraction', 'self.doCache = cache',
            'if self.doCache:\n    self.cache = {}', 'self.expiredCache = {}', 'self.lock = threading.Lock()']
    if src != want:
        raise ExtractError('CacheFactory.__init__ changed: %r' % (src,))


def extract(repo):
    tree = parse(repo, 'sqlobject/cache.py')
    cf = find_class(tree, 'CacheFactory')
    _check_init(find_func(cf, '__init__'))
    have = [s.name for s in cf.body if isinstance(s, ast.FunctionDef) and s.name != '__init__']
    if sorted(have) != sorted(METHODS):
        raise ExtractError('CacheFactory methods changed: %r' % (have,))
    lines = [HEADER % 'pycache', 'import SqlObjVerif.Model.PyCache', '',
             'namespace SqlObjVerif.PyCache.Extracted', 'open SqlObjVerif.PyCache', '']
    for name in METHODS:
        m = Method(find_func(cf, name))
        for i, b in enumerate(m.loops):
            lines += ['/-- body of `for` loop %d of `CacheFactory.%s` -/' % (i, name),
                      'def %s_for%d : Block :=\n  %s' % (name, i, b), '']
        lines += ['/-- `CacheFactory.%s(%s)`, translated; locals: %s; lists: %s -/'
                  % (name, ', '.join(['self'] + m.params),
                     ', '.join('%s=%d' % (v, i) for i, v in enumerate(m.vars)) or '-',
                     ', '.join('%s=%d' % (v, i) for i, v in enumerate(m.lists)) or '-'),
                  'def %sProg : Block :=\n  %s' % (name, m.body),
                  'def %s_nargs : Nat := %d' % (name, len(m.params)),
                  'def %s_nlocals : Nat := %d' % (name, len(m.vars) - len(m.params)),
                  'def %s_nlists : Nat := %d' % (name, len(m.lists)), '']
    lines.append('end SqlObjVerif.PyCache.Extracted')
    return '\n'.join(lines) + '\n'
