"""Inheritance: the control-flow facts of `sqlobject/inheritance/__init__.py` that the Lean model
`Model/Inherit.lean` takes as data:

* `destroyParentFirst` -- in `InheritableSQLObject.destroySelf` the call `self._parent.destroySelf()`
  comes before `super().destroySelf()` (order of the DELETE statements);
* `destroyWalksParents` -- that recursive call exists at all (without it only the own row is deleted);
* `shuntColless` -- `InheritableSQLObject.get` skips the child's SELECT when the child class has no
  columns (`if not (childResults or childClass.sqlmeta.columns): childResults = (None,)`);
* `createTagsParent` -- `_create` passes `childName = self.sqlmeta.childName` to the parent object;
* `bulkDeleteDestroys` -- `deleteMany` and `deleteBy` are overridden to `destroySelf()` every object
  selected by `cls.select(where)` / `cls.selectBy(**kw)` (instead of `SQLObject`'s raw DELETE).

The theorems in Props/C15.lean are stated over these constants.
"""
import ast
from . import ExtractError, parse, find_class, find_func, strip_doc, HEADER

TARGET = 'Inherit'
REL = 'sqlobject/inheritance/__init__.py'


def _stmt_index(body, pred):
    """index of the top-level statements of `body` that contain a node satisfying pred"""
    hits = []
    for k, st in enumerate(body):
        if any(pred(n) for n in ast.walk(st)):
            hits.append(k)
    return hits


def _is_parent_destroy(n):
    return isinstance(n, ast.Call) and ast.unparse(n.func) == 'self._parent.destroySelf'


def _is_super_destroy(n):
    return (isinstance(n, ast.Call) and isinstance(n.func, ast.Attribute) and n.func.attr == 'destroySelf'
            and isinstance(n.func.value, ast.Call) and ast.unparse(n.func.value.func) == 'super')


def _bool(b):
    return 'true' if b else 'false'


def extract(repo):
    tree = parse(repo, REL)
    cls = find_class(tree, 'InheritableSQLObject')
    # --- destroySelf
    fn = find_func(cls, 'destroySelf')
    body = strip_doc(fn.body)
    sup = _stmt_index(body, _is_super_destroy)
    par = _stmt_index(body, _is_parent_destroy)
    if len(sup) != 1:
        raise ExtractError('destroySelf: expected exactly one super().destroySelf() statement, found %d' % len(sup))
    if len(par) > 1:
        raise ExtractError('destroySelf: more than one self._parent.destroySelf() statement')
    for st in body:
        if isinstance(st, (ast.Return, ast.Raise, ast.Try, ast.For, ast.While, ast.With)):
            raise ExtractError('destroySelf: unexpected control flow: %s' % ast.unparse(st).split('\n')[0])
    walks = len(par) == 1
    if walks:
        st = body[par[0]]
        if not (isinstance(st, ast.If) and not st.orelse
                and ast.unparse(st.test) in ("hasattr(self, '_parent') and self._parent", 'self._parent')):
            raise ExtractError('destroySelf: unknown guard around the parent call: %s' % ast.unparse(st).split('\n')[0])
    parent_first = walks and par[0] < sup[0]
    # --- get: the shunt for column-less children
    gfn = find_func(cls, 'get')
    shunt = False
    for n in ast.walk(gfn):
        if isinstance(n, ast.If) and any(isinstance(s, ast.Assign) and ast.unparse(s) == 'childResults = (None,)'
                                         for s in n.body):
            t = ast.unparse(n.test)
            if t != 'not (childResults or childClass.sqlmeta.columns)':
                raise ExtractError('get: unknown shunt condition: %s' % t)
            shunt = True
    src = ast.unparse(gfn)
    if 'cls.sqlmeta.childClasses[childName]' not in src or 'val.childName' not in src:
        raise ExtractError('get: childName dispatch not recognised')
    # --- _create: the childName tag
    cfn = find_func(cls, '_create')
    csrc = ast.unparse(cfn)
    tags = "parent_kw['childName'] = self.sqlmeta.childName" in csrc
    if 'parentClass(kw=parent_kw' not in csrc:
        raise ExtractError('_create: creation of the parent object not recognised')
    # --- deleteMany / deleteBy
    def destroys_selected(name, selector):
        try:
            fn = find_func(cls, name)
        except ExtractError:
            return False
        loops = [n for n in ast.walk(fn) if isinstance(n, ast.For)]
        if len(loops) != 1:
            raise ExtractError('%s: expected one loop over the selected objects' % name)
        loop = loops[0]
        it = ast.unparse(loop.iter)
        body = [ast.unparse(st) for st in loop.body]
        if not (it.startswith('list(cls.%s(' % selector) and body == ['%s.destroySelf()' % ast.unparse(loop.target)]):
            raise ExtractError('%s: unknown loop: for %s in %s: %s' % (name, ast.unparse(loop.target), it, body))
        for st in strip_doc(fn.body):
            if isinstance(st, (ast.Return, ast.Try, ast.While, ast.With)):
                raise ExtractError('%s: unexpected control flow' % name)
        return True
    bulk_many = destroys_selected('deleteMany', 'select')
    bulk_by = destroys_selected('deleteBy', 'selectBy')
    if bulk_many != bulk_by:
        raise ExtractError('deleteMany and deleteBy are not overridden alike')
    lines = [HEADER % 'inherit', '',
             'namespace SqlObjVerif.Inherit.Extracted', '',
             '/-- `destroySelf`: `self._parent.destroySelf()` is called at all -/',
             'def destroyWalksParents : Bool := %s' % _bool(walks), '',
             '/-- `destroySelf`: the parent call comes before `super().destroySelf()` -/',
             'def destroyParentFirst : Bool := %s' % _bool(parent_first), '',
             '/-- `get`: a child class without columns is not SELECTed (`childResults = (None,)`) -/',
             'def shuntColless : Bool := %s' % _bool(shunt), '',
             "/-- `_create`: `parent_kw['childName'] = self.sqlmeta.childName` -/",
             'def createTagsParent : Bool := %s' % _bool(tags), '',
             '/-- `deleteMany` / `deleteBy` go through `destroySelf()` of every selected object -/',
             'def bulkDeleteDestroys : Bool := %s' % _bool(bulk_many), '',
             'end SqlObjVerif.Inherit.Extracted']
    return '\n'.join(lines) + '\n'
