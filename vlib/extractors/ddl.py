"""DDL data of sqlobject: the type-name tables of col.py per dialect (resolved through the class
hierarchy the way Python's method lookup does), the `_extraSQL` assembly order and keywords, the
ID-column templates and `joinSQLType` of the seven connection classes, the foreign-key delete
actions, the CREATE TABLE frame.  Output: `SqlObjVerif.Ddl.Extracted.tables : Tables`."""
import ast
import re
from . import ExtractError, parse, find_class, find_func, strip_doc, HEADER

TARGET = 'Ddl'

DIALECTS = ['sqlite', 'mysql', 'postgres', 'firebird', 'mssql', 'sybase', 'maxdb']
CONN = {
    'sqlite': ('sqlobject/sqlite/sqliteconnection.py', 'SQLiteConnection'),
    'mysql': ('sqlobject/mysql/mysqlconnection.py', 'MySQLConnection'),
    'postgres': ('sqlobject/postgres/pgconnection.py', 'PostgresConnection'),
    'firebird': ('sqlobject/firebird/firebirdconnection.py', 'FirebirdConnection'),
    'mssql': ('sqlobject/mssql/mssqlconnection.py', 'MSSQLConnection'),
    'sybase': ('sqlobject/sybase/sybaseconnection.py', 'SybaseConnection'),
    'maxdb': ('sqlobject/maxdb/maxdbconnection.py', 'MaxdbConnection'),
}
SIMPLE = [('bool', 'SOBoolCol'), ('float', 'SOFloatCol'), ('dateTime', 'SODateTimeCol'), ('date', 'SODateCol'),
          ('time', 'SOTimeCol'), ('timestamp', 'SOTimestampCol'), ('uuid', 'SOUuidCol')]
INTS = [('int', 'SOIntCol'), ('tiny', 'SOTinyIntCol'), ('small', 'SOSmallIntCol'), ('medium', 'SOMediumIntCol'),
        ('big', 'SOBigIntCol')]


def cps(s):
    return '[' + ', '.join(str(ord(c)) for c in s) + ']'


def cmt(s):
    return '/- %s -/' % s.replace('\n', '\\n').replace('-/', '- /')


def L(s):
    """Lean `Str` literal with the text as a comment"""
    return '%s %s' % (cps(s), cmt(repr(s)))


class Cols:
    """method lookup over col.py's class hierarchy, on the AST"""

    def __init__(self, repo):
        self.tree = parse(repo, 'sqlobject/col.py')
        self.classes = {n.name: n for n in self.tree.body if isinstance(n, ast.ClassDef)}

    def bases(self, cname):
        return [b.id for b in self.classes[cname].bases if isinstance(b, ast.Name) and b.id in self.classes]

    def mro(self, cname):
        out = [cname]
        for b in self.bases(cname):
            for x in self.mro(b):
                if x not in out:
                    out.append(x)
        return out

    def own(self, cname, meth):
        """the definition of `meth` in class `cname` itself: FunctionDef, or the name it is an alias of"""
        for st in self.classes[cname].body:
            if isinstance(st, ast.FunctionDef) and st.name == meth:
                return st
            if isinstance(st, ast.Assign) and len(st.targets) == 1 and isinstance(st.targets[0], ast.Name) \
                    and st.targets[0].id == meth and isinstance(st.value, ast.Name):
                return st.value.id
        return None

    def lookup(self, start_classes, meth):
        for c in start_classes:
            d = self.own(c, meth)
            if d is not None:
                if isinstance(d, str):           # `_sqliteType = _postgresType` binds that class's function
                    r = self.own(c, d)
                    if not isinstance(r, ast.FunctionDef):
                        raise ExtractError('alias %s.%s = %s not resolvable' % (c, meth, d))
                    return c, r
                return c, d
        raise ExtractError('method %s not found from %s' % (meth, start_classes))

    def type_expr(self, cname, meth, depth=0):
        """evaluate `cname()._<x>Type()` symbolically: ('const', s) | ('ifMicro', a, b) | ('ifMax', a, b) | ('err',)"""
        return self._eval(cname, self.mro(cname), meth, depth)

    def _eval(self, cname, search, meth, depth):
        if depth > 8:
            raise ExtractError('type method recursion too deep at %s.%s' % (cname, meth))
        owner, fn = self.lookup(search, meth)
        body = [st for st in strip_doc(fn.body)
                if not (isinstance(st, ast.Expr) and isinstance(st.value, ast.Call)
                        and ast.unparse(st.value.func) == 'self._check_case_sensitive')]
        return self._stmts(cname, owner, body, depth)

    def _stmts(self, cname, owner, body, depth):
        if len(body) == 1 and isinstance(body[0], ast.Return):
            return self._expr(cname, owner, body[0].value, depth)
        if len(body) == 1 and isinstance(body[0], ast.If) and len(body[0].body) == 1 and len(body[0].orelse) == 1:
            test = ast.unparse(body[0].test)
            a = self._stmts(cname, owner, body[0].body, depth)
            b = self._stmts(cname, owner, body[0].orelse, depth)
            if test == 'self.customSQLType is None' and a == ('err',):
                return a                      # SOCol._sqlType: no sqlType= given -> raises
            if a[0] != 'const' or b[0] != 'const':
                raise ExtractError('nested conditional type in %s' % owner)
            if test == 'self.connection and self.connection.can_use_microseconds()':
                return ('ifMicro', a[1], b[1])
            if test == 'self.connection and self.connection.can_use_max_types()':
                return ('ifMax', a[1], b[1])
            raise ExtractError('unknown type condition in %s: %s' % (owner, test))
        if len(body) == 1 and isinstance(body[0], ast.Raise):
            return ('err',)
        if len(body) == 1 and isinstance(body[0], ast.Try):
            t = body[0]
            inner = self._stmts(cname, owner, t.body, depth)
            if inner != ('err',):
                return inner
            if len(t.handlers) == 1 and len(t.handlers[0].body) == 1:
                return self._stmts(cname, owner, t.handlers[0].body, depth)
        raise ExtractError('type method of %s (in %s) has an unknown shape: %s'
                           % (cname, owner, '; '.join(ast.unparse(s) for s in body)[:200]))

    def _expr(self, cname, owner, e, depth):
        if isinstance(e, ast.Constant) and isinstance(e.value, str):
            return ('const', e.value)
        src = ast.unparse(e)
        m = re.fullmatch(r'self\.(_\w+Type)\(\)', src)
        if m:
            return self._eval(cname, self.mro(cname), m.group(1), depth + 1)
        m = re.fullmatch(r'super\((\w+), self\)\.(_\w+Type)\(\)', src)
        if m:
            mro = self.mro(cname)
            return self._eval(cname, mro[mro.index(m.group(1)) + 1:], m.group(2), depth + 1)
        if src == 'self.customSQLType':
            return ('err',)
        raise ExtractError('type expression of %s (in %s) not understood: %s' % (cname, owner, src))

    def str_consts(self, cname, meth):
        _, fn = self.lookup([cname], meth)
        return [n.value for n in ast.walk(fn) if isinstance(n, ast.Constant) and isinstance(n.value, str)
                and n is not getattr(fn.body[0], 'value', None)]

    def ordered_consts(self, cname, meth, kinds=(str,)):
        """constants of a method in source order (docstring excluded)"""
        _, fn = self.lookup([cname], meth)
        out = []
        for st in strip_doc(fn.body):
            for n in ast.walk(st):
                if isinstance(n, ast.Constant) and isinstance(n.value, kinds) and not isinstance(n.value, bool):
                    out.append((n.lineno, n.col_offset, n.value))
        return [v for _, _, v in sorted(out)]


def lean_type_expr(t):
    if t[0] == 'const':
        return '.const %s' % L(t[1])
    if t[0] == 'ifMicro':
        return '.ifMicro %s %s' % (L(t[1]), L(t[2]))
    if t[0] == 'ifMax':
        return '.ifMax %s %s' % (L(t[1]), L(t[2]))
    return '.err'


def word_of(fmt, shape):
    """`WORD(%i)`-like format -> WORD, checked against the regular expression `shape`"""
    m = re.fullmatch(shape, fmt)
    if not m:
        raise ExtractError('format %r does not have the shape %s' % (fmt, shape))
    return m.group(1)


def expect(cond, what):
    if not cond:
        raise ExtractError(what)


def key_types(C, d):
    """SOKeyCol type per dialect for int / str ids"""
    meth = '_%sType' % d
    owner, fn = C.lookup(C.mro('SOKeyCol'), meth)
    if owner == 'SOKeyCol' and fn.name != '_sqlType':
        dicts = [n for n in ast.walk(fn) if isinstance(n, ast.Dict)]
    else:
        # falls through SOCol._<d>Type -> self._sqlType() -> SOKeyCol.key_type
        t = C.type_expr('SOBoolCol', '_sqlType') if False else None
        dicts = [st.value for st in C.classes['SOKeyCol'].body
                 if isinstance(st, ast.Assign) and ast.unparse(st.targets[0]) == 'key_type']
        if owner != 'SOCol':
            raise ExtractError('SOKeyCol.%s resolves to %s' % (meth, owner))
        _, sq = C.lookup(C.mro('SOKeyCol'), '_sqlType')
        expect(ast.unparse(strip_doc(sq.body)[0]) == 'return self.key_type[self._idType()]', 'SOKeyCol._sqlType changed')
    expect(len(dicts) == 1, 'key type dict of SOKeyCol.%s not found' % meth)
    dd = {ast.unparse(k): v.value for k, v in zip(dicts[0].keys, dicts[0].values)}
    expect(set(dd) == {'int', 'str'}, 'key type dict keys of %s: %s' % (meth, sorted(dd)))
    return dd['int'], dd['str']


def id_suffixes(repo, d):
    """createIDColumn of a connection class -> {(isStr, idSize): suffix or None}"""
    rel, cls = CONN[d]
    klass = find_class(parse(repo, rel), cls)
    fname = '_createIDColumn' if d == 'sqlite' else 'createIDColumn'
    fn = find_func(klass, fname)
    src = ast.unparse(fn)
    src = src.replace('soClass.sqlmeta', 'sqlmeta')
    # run the function body on a stub: it only reads idType / idSize / idName
    env = {}
    code = 'def f(sqlmeta):\n' + '\n'.join('    ' + l for l in ast.unparse(ast.Module(body=strip_doc(fn.body), type_ignores=[])).replace('soClass.sqlmeta', 'sqlmeta').split('\n'))
    for node in ast.walk(fn):
        if isinstance(node, (ast.Import, ast.ImportFrom, ast.Global, ast.Nonlocal, ast.Lambda, ast.With, ast.For, ast.While, ast.Try)):
            raise ExtractError('%s.%s contains %s' % (cls, fname, type(node).__name__))
        if isinstance(node, ast.Call) and ast.unparse(node.func) not in ('TypeError', 'ValueError'):
            raise ExtractError('%s.%s calls %s' % (cls, fname, ast.unparse(node.func)))
        if isinstance(node, ast.Attribute) and ast.unparse(node) not in (
                'sqlmeta.idType', 'sqlmeta.idSize', 'sqlmeta.idName', 'soClass.sqlmeta', 'soClass.sqlmeta.idType',
                'soClass.sqlmeta.idSize', 'soClass.sqlmeta.idName'):
            raise ExtractError('%s.%s reads %s' % (cls, fname, ast.unparse(node)))
    exec(code, {'__builtins__': {'TypeError': TypeError, 'ValueError': ValueError, 'int': int, 'str': str}}, env)
    out = {}

    class M:
        pass
    for is_str in (False, True):
        for size in (None, 'TINY', 'SMALL', 'MEDIUM', 'BIG'):
            m = M()
            m.idType = str if is_str else int
            m.idSize = size
            m.idName = '\x00'
            try:
                r = env['f'](m)
            except (TypeError, ValueError, KeyError):
                r = None
            if r is not None:
                expect(r.startswith('\x00 ') and '\x00' not in r[1:], 'ID column template of %s: %r' % (cls, r))
                r = r[1:]
            out[(is_str, size)] = r
    return out


def join_type(repo, d):
    rel, cls = CONN[d]
    fn = find_func(find_class(parse(repo, rel), cls), 'joinSQLType')
    body = strip_doc(fn.body)
    expect(len(body) == 1 and isinstance(body[0], ast.Return) and isinstance(body[0].value, ast.Constant),
           '%s.joinSQLType is not a constant' % cls)
    return body[0].value.value


def fk_actions(C):
    res = None
    for meth in ('sqliteCreateSQL', 'postgresCreateReferenceConstraint', 'mysqlCreateReferenceConstraint'):
        _, fn = C.lookup(['SOForeignKey'], meth)
        ifs = [st for st in fn.body if isinstance(st, ast.If) and ast.unparse(st.test) == 'self.cascade is not None']
        expect(len(ifs) == 1, 'cascade branch of SOForeignKey.%s not found' % meth)
        top = ifs[0]
        expect(isinstance(top.orelse[0], ast.Assign) and len(top.orelse[0].targets) == 1
               and isinstance(top.orelse[0].targets[0], ast.Name) and isinstance(top.orelse[0].value, ast.Constant),
               'else branch of cascade in %s' % meth)
        act_name = top.orelse[0].targets[0].id
        none_action = top.orelse[0].value.value
        inner = top.body[0]
        expect(isinstance(inner, ast.If) and ast.unparse(inner.test) == "self.cascade == 'null'", 'cascade == null test in %s' % meth)
        null_action = inner.body[0].value.value
        el = inner.orelse[0]
        expect(isinstance(el, ast.If) and ast.unparse(el.test) == 'self.cascade', 'cascade truth test in %s' % meth)
        true_action = el.body[0].value.value
        false_action = el.orelse[0].value.value
        for br in (inner.body[0], el.body[0], el.orelse[0]):
            expect(isinstance(br, ast.Assign) and [ast.unparse(t) for t in br.targets] == [act_name],
                   'the cascade branches of %s do not assign the same local' % meth)
        got = (none_action, true_action, false_action, null_action)
        if res is None:
            res = got
        expect(res == got, 'the three renderers of the delete action differ: %r vs %r' % (res, got))
    return res


def extract(repo):
    C = Cols(repo)
    out = [HEADER % 'ddl', 'import SqlObjVerif.Model.DdlSyn', '', 'namespace SqlObjVerif.Ddl.Extracted', '']

    # ---- simple kinds
    out.append('/-- `SO<Kind>Col._<dialect>Type()` resolved through the class hierarchy of col.py -/')
    out.append('def simpleType : Dialect → SimpleKind → TypeExpr')
    for d in DIALECTS:
        for k, cname in SIMPLE:
            out.append('  | .%s, .%s => %s' % (d, k, lean_type_expr(C.type_expr(cname, '_%sType' % d))))
    out.append('')

    # ---- int family
    out.append('def intBase : IntKind → Str')
    for k, cname in INTS:
        _, fn = C.lookup([cname], '_sqlType')
        body = strip_doc(fn.body)
        m = re.fullmatch(r"return self\.addSQLAttrs\('(\w+)'\)", ast.unparse(body[0])) if len(body) == 1 else None
        expect(m, '%s._sqlType is not `return self.addSQLAttrs(NAME)`' % cname)
        for d in DIALECTS:
            owner, _ = C.lookup(C.mro(cname), '_%sType' % d)
            expect(owner == 'SOCol', '%s overrides _%sType' % (cname, d))
        out.append('  | .%s => %s' % (k, L(m.group(1))))
    consts = C.ordered_consts('SOIntCol', 'addSQLAttrs')
    expect(consts == ['%s(%d)', ' UNSIGNED', ' ZEROFILL'], 'SOIntCol.addSQLAttrs constants: %r' % (consts,))
    out.append('')

    # ---- string-like
    sq = C.ordered_consts('SOStringLikeCol', '_sqlType')
    expect(len(sq) == 3 and '%' not in sq[0], 'SOStringLikeCol._sqlType constants: %r' % (sq,))
    ms = C.ordered_consts('SOStringLikeCol', '_mssqlType')
    expect(len(ms) == 4, 'SOStringLikeCol._mssqlType constants: %r' % (ms,))
    fb = C.ordered_consts('SOStringLikeCol', '_firebirdType')
    mx = C.ordered_consts('SOStringLikeCol', '_maxdbType')
    expect(len(fb) == 2 and len(mx) == 2, 'firebird/maxdb string types: %r %r' % (fb, mx))
    un = C.ordered_consts('SOUnicodeCol', '_mssqlType')
    expect(len(un) == 1, 'SOUnicodeCol._mssqlType constants: %r' % (un,))
    for cname in ('SOStringCol', 'SOUnicodeCol', 'SOBLOBCol', 'SOPickleCol', 'SOJSONCol'):
        for d in DIALECTS:
            owner, _ = C.lookup(C.mro(cname), '_%sType' % d)
            allowed = {'SOStringLikeCol', 'SOCol'}
            if cname == 'SOUnicodeCol' and d == 'mssql':
                allowed = {'SOUnicodeCol'}
            if cname in ('SOBLOBCol', 'SOPickleCol') and d in ('mysql', 'postgres', 'mssql'):
                allowed = {'SOBLOBCol', 'SOPickleCol'}
            expect(owner in allowed, '%s._%sType now comes from %s' % (cname, d, owner))
    paren_i = r'(\w+)\(%i\)'

    # ---- blobs
    bm = C.ordered_consts('SOBLOBCol', '_mysqlType', (str, int))
    expect(len(bm) == 14 and bm[0] == 2 and bm[4] == 2 and bm[8] == 2, 'SOBLOBCol._mysqlType constants: %r' % (bm,))
    pm = C.ordered_consts('SOPickleCol', '_mysqlType', (str, int))
    expect(len(pm) == 7 and pm[0] == 2 and pm[3] == 2, 'SOPickleCol._mysqlType constants: %r' % (pm,))
    bp = C.ordered_consts('SOBLOBCol', '_postgresType')
    bs = C.ordered_consts('SOBLOBCol', '_mssqlType')
    expect(len(bp) == 1 and len(bs) == 2, 'SOBLOBCol postgres/mssql types: %r %r' % (bp, bs))

    # ---- decimal / currency
    dc = C.ordered_consts('SODecimalCol', '_sqlType')
    m = re.fullmatch(r'(\w+)\(%i(, )%i\)', dc[0]) if len(dc) == 1 else None
    expect(m, 'SODecimalCol._sqlType format: %r' % (dc,))
    cur = C.ordered_consts('SOCurrencyCol', '__init__', (str, int))
    expect(cur == ['size', 10, 'precision', 2] or (len(cur) == 4 and cur[0] == 'size' and cur[2] == 'precision'),
           'SOCurrencyCol.__init__ constants: %r' % (cur,))

    # ---- enum
    em = C.ordered_consts('SOEnumCol', '_mysqlType')
    expect(len(em) == 6 and em[1] == ', ' and em[2] == 'mysql' and em[4] == ', ' and em[5] == 'mysql',
           'SOEnumCol._mysqlType constants: %r' % (em,))
    enum_mysql_word = word_of(em[0], r'(\w+)\(%s\)')
    # the branch taken when None is not a value: "ENUM(%s)" possibly followed by " <extra>"
    expect(em[3] == em[0] or em[3].startswith(em[0] + ' '), 'SOEnumCol._mysqlType second format: %r' % (em[3],))
    enum_mysql_extra = em[3][len(em[0]) + 1:]
    ep = C.ordered_consts('SOEnumCol', '_checkType')
    expect(len(ep) == 3 and ep[0] == ', ', 'SOEnumCol._checkType constants: %r' % (ep,))
    _, ckfn = C.lookup(['SOEnumCol'], '_checkType')
    ck_params = [a.arg for a in ckfn.args.args]

    def _renders_with_param(fn, params):
        for n in ast.walk(fn):
            if isinstance(n, ast.ListComp) and len(n.generators) == 1 and isinstance(n.generators[0].target, ast.Name) \
                    and isinstance(n.elt, ast.Call) and ast.unparse(n.elt.func) == 'sqlbuilder.sqlrepr' \
                    and len(n.elt.args) == 2 and isinstance(n.elt.args[0], ast.Name) \
                    and n.elt.args[0].id == n.generators[0].target.id and isinstance(n.elt.args[1], ast.Name) \
                    and len(params) == 2 and n.elt.args[1].id == params[1] \
                    and ast.unparse(n.generators[0].iter) == 'self.enumValues' and not n.generators[0].ifs:
                return True
        return False
    expect(_renders_with_param(ckfn, ck_params),
           'SOEnumCol._checkType no longer renders the values with sqlrepr(<value>, <its dialect parameter>)')
    ef = C.ordered_consts('SOEnumCol', '_firebirdType')
    expect(len(ef) == 4 and ef[0] == ', ' and ef[1] == 'firebird' and ef[2] == ep[1], 'SOEnumCol._firebirdType constants: %r' % (ef,))
    mchk = re.fullmatch(r'(\w+) \(%s( in \()%s(\)\))', ep[1])
    expect(mchk, 'CHECK format: %r' % ep[1])
    mvc = re.fullmatch(r'(\w+)\(%i\) %s', ep[2])
    expect(mvc and ef[3] == mvc.group(1) + '(%i)', 'enum VARCHAR format: %r / %r' % (ep[2], ef[3]))
    lit_db = {'mysql': 'mysql', 'firebird': 'firebird', 'maxdb': 'maxdb'}
    for d in ('sqlite', 'postgres', 'sybase', 'mssql'):
        owner, fn = C.lookup(C.mro('SOEnumCol'), '_%sType' % d)
        expect(owner == 'SOEnumCol' and isinstance(fn, ast.FunctionDef), 'SOEnumCol._%sType from %s' % (d, owner))
        m3 = re.fullmatch(r"return self\._checkType\('(\w+)'\)", ast.unparse(strip_doc(fn.body)[0]))
        expect(m3 and len(strip_doc(fn.body)) == 1, 'SOEnumCol._%sType is not `return self._checkType(<db>)`' % d)
        lit_db[d] = m3.group(1)
    conv = parse(repo, 'sqlobject/converters.py')
    slc = [n for n in conv.body if isinstance(n, ast.FunctionDef) and n.name == 'StringLikeConverter']
    expect(len(slc) == 1, 'converters.StringLikeConverter not found')
    tuples = [tuple(e.value for e in n.elts) for n in ast.walk(slc[0]) if isinstance(n, ast.Tuple)
              and all(isinstance(e, ast.Constant) and isinstance(e.value, str) for e in n.elts) and n.elts]
    expect(len(tuples) == 2, 'dialect tuples of StringLikeConverter: %r' % (tuples,))
    full_dbs, plain_dbs = tuples

    def lit_kind(db):
        if db in full_dbs:
            return '.postgres' if db == 'postgres' else '.mysql'
        expect(db in plain_dbs, 'dialect %r unknown to StringLikeConverter' % db)
        return '.plain'

    # ---- key types
    kt = {d: key_types(C, d) for d in DIALECTS}

    # ---- _extraSQL
    _, ex = C.lookup(['SOCol'], '_extraSQL')
    order = []
    kws = {}
    acc_names = set()
    for st in strip_doc(ex.body):
        if isinstance(st, ast.If):
            test = ast.unparse(st.test)
            app = ast.unparse(st.body[0])
            if test == 'self.notNone or self.alternateID':
                kind = 'notNull'
            elif test == 'self.unique or self.alternateID':
                kind = 'unique'
            elif test == 'self.defaultSQL is not None':
                kind = 'default'
            else:
                raise ExtractError('unknown condition in _extraSQL: %s' % test)
            expect(len(st.body) == 1 and not st.orelse, '_extraSQL branch %s has an unexpected body' % test)
            # `<list local>.append(<text>)`: matched on the AST shape; the local's name is free
            call = st.body[0].value if len(st.body) == 1 and isinstance(st.body[0], ast.Expr) else None
            ok = (isinstance(call, ast.Call) and isinstance(call.func, ast.Attribute) and call.func.attr == 'append'
                  and isinstance(call.func.value, ast.Name) and len(call.args) == 1 and not call.keywords)
            expect(ok, '_extraSQL appends %s' % app)
            acc_names.add(call.func.value.id)
            arg = call.args[0]
            m2 = None
            if kind == 'default':
                if isinstance(arg, ast.BinOp) and isinstance(arg.op, ast.Mod) and isinstance(arg.left, ast.Constant) \
                        and isinstance(arg.left.value, str) and ast.unparse(arg.right) == 'self.defaultSQL':
                    m2 = re.fullmatch(r"(\w+) %s", arg.left.value)
            elif isinstance(arg, ast.Constant) and isinstance(arg.value, str):
                m2 = re.fullmatch(r"([\w ]+)", arg.value)
            expect(m2, '_extraSQL appends %s' % app)
            order.append(kind)
            kws[kind] = m2.group(1)
    expect(sorted(order) == ['default', 'notNull', 'unique'], '_extraSQL conditions: %r' % (order,))
    exb = strip_doc(ex.body)
    expect(len(acc_names) == 1 and isinstance(exb[0], ast.Assign) and ast.unparse(exb[0].value) == '[]'
           and [ast.unparse(t) for t in exb[0].targets] == list(acc_names)
           and isinstance(exb[-1], ast.Return) and ast.unparse(exb[-1].value) in acc_names,
           '_extraSQL no longer builds and returns one list')

    # ---- connections
    ids = {d: id_suffixes(repo, d) for d in DIALECTS}
    jt = {d: join_type(repo, d) for d in DIALECTS}
    act = fk_actions(C)

    # ---- CREATE TABLE frame
    dbc = find_class(parse(repo, 'sqlobject/dbconnection.py'), 'DBAPI')
    ct = [n.value for n in ast.walk(find_func(dbc, 'createTableSQL')) if isinstance(n, ast.Constant) and isinstance(n.value, str)]
    expect(len(ct) == 1, 'createTableSQL constants: %r' % (ct,))
    mct = re.fullmatch(r'(CREATE TABLE )%s( \(\n)%s(\n\))', ct[0])
    expect(mct, 'CREATE TABLE format: %r' % ct[0])
    cc = [n.value for n in ast.walk(find_func(dbc, 'createColumns')) if isinstance(n, ast.Constant) and isinstance(n.value, str)]
    expect(len(cc) == 2 and cc[1].endswith('%s') and cc[1].count('%') == 1, 'createColumns constants: %r' % (cc,))
    jf = [n.value for n in ast.walk(find_func(dbc, '_SO_createJoinTableSQL')) if isinstance(n, ast.Constant) and isinstance(n.value, str)]
    expect(jf == ['CREATE TABLE %s (\n%s %s,\n%s %s\n)'], '_SO_createJoinTableSQL format: %r' % (jf,))

    # ---- which side of a RelatedJoin creates / drops the link table
    so_cls = find_class(parse(repo, 'sqlobject/main.py'), 'SQLObject')

    def join_loops(fname):
        """the `for <x> in cls._getJoinsToCreate() / cls.sqlmeta.joins` loops of `fname` (any loop variable name)"""
        fn = find_func(so_cls, fname)
        return [n for n in ast.walk(fn) if isinstance(n, ast.For) and isinstance(n.target, ast.Name)
                and ast.unparse(n.iter) in ('cls._getJoinsToCreate()', 'cls.sqlmeta.joins')]

    def link_key(fname):
        loops = join_loops(fname)
        expect(len(loops) == 1, 'join loop of %s: %d loops' % (fname, len(loops)))
        var = re.escape(loops[0].target.id)
        found = []
        for node in ast.walk(loops[0]):
            if isinstance(node, ast.If) and len(node.body) == 1 and isinstance(node.body[0], ast.Continue):
                m4 = re.fullmatch(var + r'\.soClass\.([\w.]+) > ' + var + r'\.otherClass\.([\w.]+)', ast.unparse(node.test))
                if m4:
                    found.append((m4.group(1), m4.group(2)))
        expect(len(found) == 1 and found[0][0] == found[0][1], 'ownership test of %s: %r' % (fname, found))
        key = {'__name__': '.className', 'sqlmeta.table': '.tableName'}.get(found[0][0])
        expect(key, 'ownership test of %s compares %s' % (fname, found[0][0]))
        return key
    def iterates_joins_to_create(fname):
        """the join loop of `fname` runs over `cls._getJoinsToCreate()` (so it applies that function's tests)"""
        loops = join_loops(fname)
        expect(len(loops) == 1, 'join loop of %s: %d loops' % (fname, len(loops)))
        return ast.unparse(loops[0].iter) == 'cls._getJoinsToCreate()'
    drop_shares = iterates_joins_to_create('dropJoinTables')
    link_create = link_key('_getJoinsToCreate')
    link_drop = link_create if drop_shares else link_key('dropJoinTables')

    def passes_flag(fname, callee, kwname):
        """does `fname` hand its own if-exists flag on to `callee`?"""
        fn = find_func(so_cls, fname)
        calls = [n for n in ast.walk(fn) if isinstance(n, ast.Call) and ast.unparse(n.func) == 'cls.' + callee]
        expect(len(calls) == 1, '%s calls %s %d times' % (fname, callee, len(calls)))
        kws = {k.arg: ast.unparse(k.value) for k in calls[0].keywords}
        expect(not calls[0].args and set(kws) <= {kwname, 'connection'}, '%s: arguments of %s: %s' % (fname, callee, ast.unparse(calls[0])))
        if kwname not in kws:
            return False
        expect(kws[kwname] == kwname, '%s passes %s=%s' % (fname, kwname, kws[kwname]))
        return True
    drop_passes = passes_flag('dropTable', 'dropJoinTables', 'ifExists')
    create_passes = passes_flag('createTable', 'createJoinTables', 'ifNotExists')

    def dedupes(fname):
        """`if <x>.intermediateTable in [<y>.intermediateTable for <y> in <acc>]: continue` inside the join loop"""
        for loop in join_loops(fname):
            for node in ast.walk(loop):
                if isinstance(node, ast.If) and len(node.body) == 1 and isinstance(node.body[0], ast.Continue) \
                        and isinstance(node.test, ast.Compare) and len(node.test.ops) == 1 \
                        and isinstance(node.test.ops[0], ast.In) \
                        and ast.unparse(node.test.left) == loop.target.id + '.intermediateTable':
                    lc = node.test.comparators[0]
                    if isinstance(lc, ast.ListComp) and len(lc.generators) == 1 and not lc.generators[0].ifs \
                            and isinstance(lc.generators[0].target, ast.Name) and isinstance(lc.generators[0].iter, ast.Name) \
                            and ast.unparse(lc.elt) == lc.generators[0].target.id + '.intermediateTable':
                        return True
        return False
    create_dedupes = dedupes('_getJoinsToCreate')
    drop_dedupes = create_dedupes if drop_shares else dedupes('dropJoinTables')
    expect(iterates_joins_to_create('createJoinTables'), 'createJoinTables no longer iterates _getJoinsToCreate()')

    def pair(a, b):
        return '(%s, %s)' % (L(a), L(b))

    sizes = [('none', None), ('tiny', 'TINY'), ('small', 'SMALL'), ('medium', 'MEDIUM'), ('big', 'BIG')]
    out.append('def keyType : Dialect → Bool → Str')
    for d in DIALECTS:
        out.append('  | .%s, false => %s' % (d, L(kt[d][0])))
        out.append('  | .%s, true => %s' % (d, L(kt[d][1])))
    out.append('')
    out.append('/-- `createIDColumn` of each connection class: what follows the id name -/')
    out.append('def idSuffix : Dialect → Bool → IdSize → Option Str')
    for d in DIALECTS:
        for is_str in (False, True):
            for sz, py in sizes:
                r = ids[d][(is_str, py)]
                out.append('  | .%s, %s, .%s => %s' % (d, 'true' if is_str else 'false', sz,
                                                      'none' if r is None else 'some %s' % L(r)))
    out.append('')
    out.append('def joinType : Dialect → Str')
    for d in DIALECTS:
        out.append('  | .%s => %s' % (d, L(jt[d])))
    out.append('')
    out.append('def fkAction : Cascade → Str')
    for name, v in zip(['none', 'cascade', 'restrict', 'setNull'], act):
        out.append('  | .%s => %s' % (name, L(v)))
    out.append('')
    out.append('/-- what `_getJoinsToCreate` / `dropJoinTables` compare to pick the side that owns a link table -/')
    out.append('def linkCreateKey : LinkKey := %s' % link_create)
    out.append('def linkDropKey : LinkKey := %s' % link_drop)
    out.append('/-- `dropTable(ifExists)` hands `ifExists` on to `dropJoinTables`; `createTable(ifNotExists)` to `createJoinTables` -/')
    out.append('def dropPassesIfExists : Bool := %s' % ('true' if drop_passes else 'false'))
    out.append('def createPassesIfNotExists : Bool := %s' % ('true' if create_passes else 'false'))
    out.append('/-- a link table listed twice by one class (self-referential join, both directions) is handled once -/')
    out.append('def createDedupes : Bool := %s' % ('true' if create_dedupes else 'false'))
    out.append('def dropDedupes : Bool := %s' % ('true' if drop_dedupes else 'false'))
    out.append('')
    out.append('/-- which `sqlrepr` dialect renders the values of an EnumCol -/')
    out.append('def enumLit : Dialect → LitDb')
    for d in DIALECTS:
        out.append('  | .%s => %s' % (d, lit_kind(lit_db[d])))
    out.append('')
    out.append('def tables : Tables where')
    out.append('  simpleType := simpleType')
    out.append('  intBase := intBase')
    out.append('  intUnsigned := %s' % L(' UNSIGNED'.strip()))
    out.append('  intZerofill := %s' % L(' ZEROFILL'.strip()))
    out.append('  strText := %s' % L(sq[0]))
    out.append('  strVarchar := %s' % pair(word_of(sq[1], paren_i), '(%i)'))
    out.append('  strChar := %s' % pair(word_of(sq[2], paren_i), '(%i)'))
    out.append('  strFirebirdNoLen := %s' % L(fb[1]))
    out.append('  strMaxdbNoLen := %s' % L(mx[1]))
    out.append('  strMssqlMax := %s' % L(ms[0]))
    out.append('  strMssqlNoMax := %s' % L(ms[1]))
    out.append('  strMssqlVarchar := %s' % pair(word_of(ms[2], paren_i), '(%i)'))
    out.append('  strMssqlChar := %s' % pair(word_of(ms[3], paren_i), '(%i)'))
    out.append('  unicodeMssqlPrefix := %s' % L(un[0]))
    out.append('  blobMysql := [(%d, %s, %s), (%d, %s, %s), (%d, %s, %s)]' % (
        bm[0] ** bm[1], L(bm[2]), L(bm[3]), bm[4] ** bm[5], L(bm[6]), L(bm[7]), bm[8] ** bm[9], L(bm[10]), L(bm[11])))
    out.append('  blobMysqlElse := %s' % pair(bm[12], bm[13]))
    out.append('  pickleMysql := [(%d, %s), (%d, %s)]' % (pm[0] ** pm[1], L(pm[2]), pm[3] ** pm[4], L(pm[5])))
    out.append('  pickleMysqlElse := %s' % L(pm[6]))
    out.append('  blobPostgres := %s' % L(bp[0]))
    out.append('  blobMssqlMax := %s' % L(bs[0]))
    out.append('  blobMssqlNoMax := %s' % L(bs[1]))
    out.append('  decimalFmt := (%s, %s, %s)' % (L(m.group(1)), L(m.group(2)), L(')')))
    out.append('  currencySize := %d' % cur[1])
    out.append('  currencyPrecision := %d' % cur[3])
    out.append('  enumMysql := %s' % pair(enum_mysql_word, ')'))
    out.append('  enumMysqlExtra := %s' % L(enum_mysql_extra))
    out.append('  enumLit := enumLit')
    out.append('  enumVarchar := %s' % pair(mvc.group(1), ')'))
    out.append('  enumCheck := (%s, %s, %s)' % (L(mchk.group(1)), L(mchk.group(2)), L(mchk.group(3))))
    out.append('  enumSep := %s' % L(ep[0]))
    out.append('  keyType := keyType')
    out.append('  extraOrder := [%s]' % ', '.join('.' + k for k in order))
    out.append('  kwNotNull := %s' % L(kws['notNull']))
    out.append('  kwUnique := %s' % L(kws['unique']))
    out.append('  kwDefault := %s' % L(kws['default']))
    out.append('  idSuffix := idSuffix')
    out.append('  joinType := joinType')
    out.append('  fkAction := fkAction')
    out.append('  createTable := (%s, %s, %s)' % (L(mct.group(1)), L(mct.group(2)), L(mct.group(3))))
    out.append('  colSep := %s' % L(cc[0]))
    out.append('  indent := %s' % L(cc[1][:-2]))
    out.append('')
    out.append('end SqlObjVerif.Ddl.Extracted')
    return '\n'.join(out) + '\n'
