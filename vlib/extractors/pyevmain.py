"""TRANSLATOR: the row-signal paths of `SQLObject` (sqlobject/main.py) -> PyEv blocks (C19).

`__init__`, `_create`, `_SO_finishCreate` (with its nested `_send_RowCreatedSignal`), `_init`, `_SO_setValue`,
`set`, `syncUpdate` and the signal frame of `destroySelf` are translated statement by statement into the deep
embedding of `lean/SqlObjVerif/Model/PyEv.lean`.  The translator is the one of `pymain.py` (C05/C16; same slot /
loop / view conventions: locals numbered in order of first binding per space, every `for` body its own
definition, a rename of a local gives the same term) — but the signal sends are KEPT, with their arguments:

  * `self.sqlmeta.send(events.<Sig>, self, a, b)` -> `.send <sig> [.self, …]`: a dict-kind local is passed by
    reference (`.dict`), a list-kind local by reference (`.list`), anything else by value;
  * `func(self)` on a value local -> `.callPost`; `func()` -> `.callThunk`;
  * `_postponed_local.postponed_calls`: the bare attribute read, `= []`, `del`, `for x in …:` (`.forPostponed`, by
    index over the live list) and `.append(f)` for a nested zero-argument `def f` that IMMEDIATELY precedes the
    append (`.postponedAppend <n>`; the body of `f` becomes `<m>_thunk<n>`, translated over the SAME slots: the
    closure runs over the frame it captured);
  * `destroySelf`: everything between the RowDestroySignal send and `self._connection._SO_delete(self)` (the joins /
    dependents cascade: C12's business) becomes the single statement `.cascade` — a parameter; it must not mention
    `post_funcs`, `events`, `_postponed_local` or contain a `return`;
  * `continue`; `del self._SO_createValues`, `del self.sqlmeta._creating`; `self.id = e`;
    `x = self._connection.queryInsertID(self, id, names, values)`; `self._connection._SO_delete(self)`;
    `threading.Lock()`, the sqlmeta instance, the validator state and the cache bookkeeping calls
    (`cache.created`, `cache.expire`) -> `.newLock`, `.newMeta`, `.ghost "<what>"`;
  * `dict([('k', e), …])` with constant string keys is an immutable record value (`.sdict`);
  * a statement / condition the fragment has no form for becomes `.opaque "<source>"`, whose meaning is STUCK:
    a proof "translated = model" only goes through when no state of the model reaches it (the `connection=` /
    `id=` keyword paths of `__init__` / `_init`); the names it binds become unbound value locals.
"""
import ast
from . import ExtractError, parse, find_class, find_func, strip_doc, HEADER, lean_str
from . import pymain
from .pymain import _is_self, _self_attr, _meta_attr, _plain_call, _const, _is_self_class

TARGET = 'PyEvMain'

METHODS = ['__init__', '_create', '_SO_finishCreate', '_init', '_SO_setValue', 'set', 'syncUpdate', 'destroySelf']
LEAN_NAME = {'__init__': 'init', '_create': 'create', '_SO_finishCreate': 'finishCreate', '_init': 'initRow',
             '_SO_setValue': 'setValue', 'set': 'set', 'syncUpdate': 'syncUpdate', 'destroySelf': 'destroySelf'}
CALLABLE = ('syncUpdate', '_SO_selectInit', 'set', '_create', '_SO_finishCreate', '_init')
FLAGS = {'dirty': 'dirty', 'lazyUpdate': 'lazyUpdate', 'cacheValues': 'cacheValues',
         '_creating': 'creating', '_obsolete': 'obsolete'}
SETFLAGS = {'dirty': 'dirty', '_creating': 'creating', '_obsolete': 'obsolete'}
COLATTR = dict(pymain.COLATTR, default='default', defaultSQL='defaultSQL', foreignName='foreignName')
SIGS = {'RowCreateSignal': 'create', 'RowCreatedSignal': 'created', 'RowUpdateSignal': 'update',
        'RowUpdatedSignal': 'updated', 'RowDestroySignal': 'destroy', 'RowDestroyedSignal': 'destroyed'}


def _is_postponed(n):
    return isinstance(n, ast.Attribute) and n.attr == 'postponed_calls' and isinstance(n.value, ast.Name) \
        and n.value.id == '_postponed_local'


class Method(pymain.Method):
    def __init__(self, fn, frame=False):
        self.thunks = []
        self.closures = {}
        self.frame = frame
        a = fn.args
        self.defaults = [ast.unparse(d) for d in a.defaults]
        for d in a.defaults:
            if not (isinstance(d, ast.Constant) and d.value in (None, False, True)):
                raise ExtractError('default outside the fragment in %s' % fn.name)
        pymain.Method.__init__(self, fn)

    # ---- expressions ----------------------------------------------------------------------
    def expr(self, n):
        if isinstance(n, ast.Constant) and isinstance(n.value, str):
            return '(.str %s)' % lean_str(n.value)
        if _is_postponed(n):
            return '.postponed'
        if _is_self_class(n):
            return '.selfClass'
        if _self_attr(n) == 'id':
            return '.selfId'
        if isinstance(n, ast.Name) and n.id == 'NoDefault' and n.id not in self.kind:
            return '.noDefault'
        m = _meta_attr(n)
        if m is not None:
            if m in FLAGS:
                return '(.flag .%s)' % FLAGS[m]
            self.err('sqlmeta attribute outside the fragment', n)
        if isinstance(n, ast.Attribute) and n.attr in COLATTR and not _is_self(n.value) \
                and _self_attr(n.value) is None:
            return '(.colAttr %s .%s)' % (self.expr(n.value), COLATTR[n.attr])
        sd = self.sdict(n)
        if sd is not None:
            return sd
        return pymain.Method.expr(self, n)

    def sdict(self, n):
        if _plain_call(n, 1) and isinstance(n.func, ast.Name) and n.func.id == 'dict' and isinstance(n.args[0], ast.List) \
                and n.args[0].elts and all(isinstance(e, ast.Tuple) and len(e.elts) == 2 and isinstance(e.elts[0], ast.Constant)
                                            and isinstance(e.elts[0].value, str) for e in n.args[0].elts):
            out = '.none'
            for e in reversed(n.args[0].elts):
                out = '(.pair (.pair (.str %s) %s) %s)' % (lean_str(e.elts[0].value), self.expr(e.elts[1]), out)
            return '(.sdict %s)' % out
        return None

    def cond(self, n):
        try:
            return self.cond1(n)
        except ExtractError:
            if isinstance(n, (ast.BoolOp, ast.UnaryOp)):
                raise
            return '(.opaque %s)' % lean_str(ast.unparse(n))

    def cond1(self, n):
        if isinstance(n, ast.UnaryOp) and isinstance(n.op, ast.Not):
            return '(.not %s)' % self.cond(n.operand)
        if isinstance(n, ast.BoolOp):
            op = 'and' if isinstance(n.op, ast.And) else 'or'
            parts = [self.cond(v) for v in n.values]
            out = parts[-1]
            for p in reversed(parts[:-1]):
                out = '(.%s %s %s)' % (op, p, out)
            return out
        if isinstance(n, ast.Compare) and len(n.ops) == 1:
            op, lhs, rhs = n.ops[0], n.left, n.comparators[0]
            if isinstance(op, ast.Is) and isinstance(rhs, ast.Name) and rhs.id == 'NoDefault' and 'NoDefault' not in self.kind:
                return '(.isNoDefault %s)' % self.expr(lhs)
        return pymain.Method.cond(self, n)

    # ---- loops ----------------------------------------------------------------------------
    def loop(self, body):
        idx = len(self.loops)
        self.loops.append(None)
        self.in_loop += 1
        try:
            self.loops[idx] = self.block(body)
        finally:
            self.in_loop -= 1
        return '%s_for%d' % (LEAN_NAME[self.name], idx)

    # ---- statements -----------------------------------------------------------------------
    def snapshot(self):
        return (list(self.vars), list(self.lists), list(self.dicts), dict(self.kind), dict(self.views),
                list(self.loops), self.fresh, dict(self.fns), list(self.thunks), dict(self.closures))

    def restore(self, s):
        (self.vars, self.lists, self.dicts, self.kind, self.views, self.loops, self.fresh, self.fns,
         self.thunks, self.closures) = s

    def stmt(self, n):
        snap = self.snapshot()
        try:
            return self.stmt1(n)
        except ExtractError:
            if isinstance(n, (ast.FunctionDef, ast.Return, ast.Continue)):
                raise
            self.restore(snap)
            # the names it binds become (unbound) value locals
            for x in ast.walk(n):
                if isinstance(x, ast.Name) and isinstance(x.ctx, ast.Store):
                    if self.kind.get(x.id) in (None, 'var'):
                        self.bind(x.id, 'var')
                    else:
                        self.err('opaque statement rebinds a dict / list local', n)
            return ['(.opaque %s)' % lean_str(ast.unparse(n).split('\n')[0])]

    def stmt1(self, n):
        if isinstance(n, ast.Continue):
            if not self.in_loop:
                self.err('continue outside a loop', n)
            return ['.continue']
        if isinstance(n, ast.FunctionDef):
            a = n.args
            body = strip_doc(n.body)
            if not a.args and not (a.vararg or a.kwarg or a.kwonlyargs or a.defaults or a.posonlyargs or n.decorator_list) \
                    and not (len(body) == 1 and isinstance(body[0], ast.Return)):
                if n.name in self.kind or self.in_loop or n.name in self.closures:
                    self.err('nested function outside the fragment', n)
                for x in ast.walk(ast.Module(body=body, type_ignores=[])):
                    if isinstance(x, (ast.Return, ast.Yield, ast.YieldFrom, ast.Global, ast.Nonlocal, ast.FunctionDef, ast.Lambda)):
                        self.err('nested function body outside the fragment', n)
                fid = len(self.thunks)
                self.thunks.append(None)
                self.closures[n.name] = fid
                self.thunks[fid] = self.block(body)
                return []
        if isinstance(n, ast.Expr) and _is_postponed(n.value):
            return ['(.exprStmt .postponed)']
        if isinstance(n, ast.Delete) and len(n.targets) == 1:
            t = n.targets[0]
            if _is_postponed(t):
                return ['.delPostponed']
            if _self_attr(t) == '_SO_createValues':
                self.touched('self._SO_createValues')
                return ['.delCreateValues']
            if _meta_attr(t) == '_creating':
                return ['.delCreating']
        if isinstance(n, ast.For) and not n.orelse and _is_postponed(n.iter) and isinstance(n.target, ast.Name):
            x = self.bind(n.target.id, 'var')
            return ['(.forPostponed %d %s)' % (x, self.loop(n.body))]
        return pymain.Method.stmt(self, n)

    def assign(self, n):
        if len(n.targets) == 1:
            t, v = n.targets[0], n.value
            if _is_postponed(t) and isinstance(v, ast.List) and not v.elts:
                return ['.postponedNew']
            m = _meta_attr(t)
            if m in SETFLAGS and isinstance(v, ast.Constant) and isinstance(v.value, bool):
                return ['(.setFlag .%s %s)' % (SETFLAGS[m], 'true' if v.value else 'false')]
            if m == 'expired':
                self.err('assignment outside the fragment', n)
            sa = _self_attr(t)
            if sa == 'id':
                return ['(.setId %s)' % self.expr(v)]
            if sa == '_SO_writeLock' and ast.unparse(v) == 'threading.Lock()':
                return ['.newLock']
            if sa == 'sqlmeta' and ast.unparse(v) == 'self.__class__.sqlmeta(self)':
                return ['.newMeta']
            if sa == '_SO_validatorState' and ast.unparse(v) == 'sqlbuilder.SQLObjectState(self)':
                return ['(.ghost "_SO_validatorState")']
            if isinstance(t, ast.Name):
                if ast.unparse(v) == 'self._connection.cache':
                    self.bind(t.id, 'cache')
                    return []
                sd = self.sdict(v)
                if sd is not None:
                    return ['(.assign %d %s)' % (self.bind(t.id, 'var'), sd)]
                if isinstance(v, ast.Call) and isinstance(v.func, ast.Attribute) and v.func.attr == 'queryInsertID' \
                        and _self_attr(v.func.value) == '_connection' and _plain_call(v, 4) and _is_self(v.args[0]):
                    ide = self.expr(v.args[1])
                    names, vals = self.lexpr(v.args[2]), self.lexpr(v.args[3])
                    return ['(.insert %d %s %s %s)' % (self.bind(t.id, 'var'), ide, names, vals)]
        return pymain.Method.assign(self, n)

    def sarg(self, a):
        if _is_self(a):
            return '.self'
        if isinstance(a, ast.Name):
            k = self.kind.get(a.id)
            if k == 'dict':
                return '(.dict %s)' % self.dref(a)
            if k == 'list':
                return '(.list %d)' % self.slot('list', a.id)
        return '(.val %s)' % self.expr(a)

    def call_stmt(self, c):
        f = c.func
        if isinstance(f, ast.Name):
            if self.kind.get(f.id) == 'var' and _plain_call(c, 1) and _is_self(c.args[0]):
                return ['(.callPost %s)' % self.expr(f)]
            if self.kind.get(f.id) == 'var' and _plain_call(c, 0):
                return ['(.callThunk %s)' % self.expr(f)]
        if isinstance(f, ast.Attribute):
            if _self_attr(f.value) == 'sqlmeta' and f.attr == 'send':
                if c.keywords or any(isinstance(a, ast.Starred) for a in c.args) or len(c.args) < 2 \
                        or not (isinstance(c.args[0], ast.Attribute) and isinstance(c.args[0].value, ast.Name)
                                and c.args[0].value.id == 'events' and c.args[0].attr in SIGS):
                    self.err('send outside the fragment', c)
                return ['(.send .%s [%s])' % (SIGS[c.args[0].attr], ', '.join(self.sarg(a) for a in c.args[1:]))]
            if f.attr == 'append' and _is_postponed(f.value) and _plain_call(c, 1) and isinstance(c.args[0], ast.Name) \
                    and c.args[0].id in self.closures:
                if self.last_def != c.args[0].id:
                    self.err('the nested def must immediately precede its append', c)
                return ['(.postponedAppend %d)' % self.closures[c.args[0].id]]
            if _self_attr(f.value) == '_connection' and f.attr == '_SO_delete' and _plain_call(c, 1) and _is_self(c.args[0]):
                return ['.delete']
            if isinstance(f.value, ast.Name) and self.kind.get(f.value.id) == 'cache' and f.attr == 'created' \
                    and ast.unparse(c) == '%s.created(id, self.__class__, self)' % f.value.id:
                self.var('id', c)
                return ['(.ghost "cache.created")']
            if ast.unparse(c) == 'self._connection.cache.expire(self.id, self.__class__)':
                return ['(.ghost "cache.expire")']
            if _is_self(f.value) and f.attr in CALLABLE:
                stars = [k for k in c.keywords if k.arg is None]
                if not any(isinstance(a, ast.Starred) for a in c.args) and len(stars) == len(c.keywords) <= 1:
                    args = '[%s]' % ', '.join(self.expr(a) for a in c.args)
                    if not stars:
                        return ['(.callSelf "%s" %s)' % (f.attr, args)]
                    if self.dref(stars[0].value):
                        return ['(.callSelfKw "%s" %s %s)' % (f.attr, args, self.dref(stars[0].value))]
                self.err('call of a method of self outside the fragment', c)
        out = pymain.Method.call_stmt(self, c)
        if out is not None and any(o.startswith(('(.send', '(.callOpaque', '(.callSelf', '.cacheExpire')) for o in out):
            self.err('statement outside the fragment', c)
        return out

    last_def = None

    def block(self, stmts):
        parts = []
        if self.frame and stmts is self.frame_body:
            stmts = self.cut_cascade(stmts)
        for s in stmts:
            if s == 'CASCADE':
                parts.append('.cascade')
                continue
            parts += self.stmt(s)
            self.last_def = s.name if isinstance(s, ast.FunctionDef) and s.name in self.closures else None
        out = '.nil'
        for p in reversed(parts):
            out = '(.cons %s\n    %s)' % (p, out)
        return out

    def cut_cascade(self, stmts):
        def is_delete(s):
            return isinstance(s, ast.Expr) and ast.unparse(s.value) == 'self._connection._SO_delete(self)'
        idx = [i for i, s in enumerate(stmts) if is_delete(s)]
        if len(idx) != 1 or idx[0] < 2:
            self.err('destroySelf: no single top-level _SO_delete after the RowDestroySignal send')
        if not (isinstance(stmts[1], ast.Expr) and 'RowDestroySignal' in ast.unparse(stmts[1])):
            self.err('destroySelf: the second statement is not the RowDestroySignal send')
        for s in stmts[2:idx[0]]:
            for x in ast.walk(s):
                if isinstance(x, ast.Return) or (isinstance(x, ast.Name) and x.id in ('post_funcs', 'events', '_postponed_local')):
                    self.err('destroySelf: the cascade part mentions post_funcs / events / return', s)
        return list(stmts[:2]) + ['CASCADE'] + list(stmts[idx[0]:])


class FrameMethod(Method):
    def __init__(self, fn):
        self.frame_body = strip_doc(fn.body)
        fn.body = self.frame_body
        Method.__init__(self, fn, frame=True)


def extract(repo):
    tree = parse(repo, 'sqlobject/main.py')
    names = [s.targets[0].id for s in tree.body if isinstance(s, ast.Assign) and len(s.targets) == 1
             and isinstance(s.targets[0], ast.Name)]
    if names.count('_postponed_local') != 1 or \
            not any(isinstance(s, ast.Assign) and ast.unparse(s) == '_postponed_local = local()' for s in tree.body):
        raise ExtractError('_postponed_local is no longer a module-level threading.local()')
    so = find_class(tree, 'SQLObject')
    lines = [HEADER % 'pyevmain', 'import SqlObjVerif.Model.PyEv', '',
             'namespace SqlObjVerif.PyEv.Extracted', 'open SqlObjVerif.PyEv', '']
    for name in METHODS:
        if sum(1 for s in so.body if isinstance(s, ast.FunctionDef) and s.name == name) != 1:
            raise ExtractError('SQLObject defines %s more than once' % name)
        fn = find_func(so, name)
        m = FrameMethod(fn) if name == 'destroySelf' else Method(fn)
        ln = LEAN_NAME[name]
        for i, b in enumerate(m.loops):
            lines += ['/-- body of `for` loop %d of `SQLObject.%s` -/' % (i, name),
                      'def %s_for%d : Block :=\n  %s' % (ln, i, b), '']
        for i, b in enumerate(m.thunks):
            lines += ['/-- body of nested def %d of `SQLObject.%s` -/' % (i, name),
                      'def %s_thunk%d : Block :=\n  %s' % (ln, i, b), '']

        def show(l):
            return ', '.join('%s=%d' % (v, i) for i, v in enumerate(l) if v is not None) or '-'
        dflt = {'None': '.none', 'False': '(.bool false)', 'True': '(.bool true)'}
        lines += ['/-- `SQLObject.%s(%s)`, translated; values: %s; lists: %s; dicts: %s -/'
                  % (name, ', '.join(['self'] + m.params + (['**' + m.dicts[0]] if m.dicts[0] else [])),
                     show(m.vars), show(m.lists), show(m.dicts)),
                  'def %sProg : Block :=\n  %s' % (ln, m.body),
                  'def %s_nargs : Nat := %d' % (ln, len(m.params)),
                  'def %s_defaults : List PV := [%s]' % (ln, ', '.join(dflt[d] for d in m.defaults)), '']
    lines.append('end SqlObjVerif.PyEv.Extracted')
    return '\n'.join(lines) + '\n'
