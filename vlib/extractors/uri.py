"""Connection URIs: the literals, `safe=` arguments and control skeleton of `DBConnection.uri`,
`SQLiteConnection.uri`, `SQLiteConnection._connectionFromParams`, and the `dbName` of every
connection class, translated to the constants of `SqlObjVerif.Uri.Extracted`.

The hand-written builders in `Model/Uri.lean` mirror the statement skeleton checked here; every
string literal in it is data (a constant below), and `quote(x)` without `safe=` is normalised to the
urllib default `safe='/'`."""
import ast
from . import ExtractError, parse, find_class, find_func, strip_doc, lean_nat_list, HEADER

TARGET = 'Uri'

GENERIC_SKELETON = """\
v1 = getattr(self, '§', '§') or '§'
if v1:
    v1 = quote(v1, safe='§')
    if self.password:
        v1 += '§' + quote(self.password, safe='§')
    v1 += '§'
else:
    assert not getattr(self, '§', None), '§'
v2 = '§' % (self.dbName, v1)
if self.host:
    if '§' in self.host and (not self.host.startswith('§')):
        v2 += '§' % self.host
    else:
        v2 += self.host
if self.port:
    v2 += '§' % self.port
v2 += '§'
v3 = self.db
if v3.startswith('§'):
    v3 = v3[1:]
return v2 + quote(v3, safe='§')"""

SQLITE_SKELETON = """\
v1 = self.filename
if v1 == '§':
    v1 = '§'
else:
    if v1.startswith('§'):
        v1 = '§' + v1
    else:
        v1 = '§' + v1
    v1 = quote(v1, safe='§')
return '§' % v1"""

SQLITE_OPEN_SKELETON = """\
assert host is None and port is None, '§' % (host, port and '§' % port or '§')
assert user is None and password is None, '§'
if path == '§':
    path = '§'
return cls(filename=path, **args)"""

CONNECTIONS = [
    ('sqlobject/firebird/firebirdconnection.py', 'FirebirdConnection'),
    ('sqlobject/maxdb/maxdbconnection.py', 'MaxdbConnection'),
    ('sqlobject/mssql/mssqlconnection.py', 'MSSQLConnection'),
    ('sqlobject/mysql/mysqlconnection.py', 'MySQLConnection'),
    ('sqlobject/postgres/pgconnection.py', 'PostgresConnection'),
    ('sqlobject/sybase/sybaseconnection.py', 'SybaseConnection'),
]


class _Abstract(ast.NodeTransformer):
    """string literals -> '§' (collected in source order); the parameters keep their names, every other local is
    renamed to v1, v2 … in order of first occurrence, so that renaming a local does not change the skeleton"""

    def __init__(self, params=()):
        self.consts = []
        self.names = {p: p for p in params}

    def visit_Name(self, node):
        if node.id in self.names or isinstance(node.ctx, ast.Store):
            if node.id not in self.names:
                self.names[node.id] = 'v%d' % (1 + sum(1 for v in self.names.values() if v.startswith('v') and v[1:].isdigit()))
            return ast.copy_location(ast.Name(id=self.names[node.id], ctx=node.ctx), node)
        return node

    def visit_Call(self, node):
        # quote(x) == quote(x, safe='/')   (urllib.parse.quote's default)
        if isinstance(node.func, ast.Name) and node.func.id == 'quote' and len(node.args) == 1 \
                and not any(k.arg == 'safe' for k in node.keywords):
            node.keywords.append(ast.keyword(arg='safe', value=ast.Constant('/')))
        return self.generic_visit(node)

    def visit_Constant(self, node):
        if isinstance(node.value, str):
            self.consts.append(node.value)
            return ast.copy_location(ast.Constant('§'), node)
        return node


def skeleton(fn):
    t = _Abstract([a.arg for a in fn.args.args])
    body = [t.visit(s) for s in strip_doc(fn.body)]
    for s in body:
        ast.fix_missing_locations(s)
    return '\n'.join(ast.unparse(s) for s in body), t.consts


def _expect(fn, want, what):
    got, consts = skeleton(fn)
    if got != want:
        raise ExtractError('%s no longer has the statement skeleton the model mirrors:\n%s' % (what, got))
    return consts


def _fmt(fmt, spec, what):
    """'<lit>%x' -> lit ; '%s<lit>%s' -> lit"""
    parts = fmt.split(spec)
    if '%' in ''.join(parts):
        raise ExtractError('unexpected format string %r in %s' % (fmt, what))
    return parts


def _class_attr(cls, name):
    for st in cls.body:
        if isinstance(st, ast.Assign) and len(st.targets) == 1 and isinstance(st.targets[0], ast.Name) \
                and st.targets[0].id == name:
            return st.value
    raise ExtractError('%s.%s not found' % (cls.name, name))


def _init_store(fn):
    """how `SQLiteConnection.__init__` stores the `filename` argument: 'asGiven' when the only assignment to
    `self.filename` is the plain parameter and the parameter is not rebound before it"""
    rebound = False
    stores = []
    for node in ast.walk(fn):
        if isinstance(node, (ast.Assign, ast.AugAssign, ast.AnnAssign)):
            targets = node.targets if isinstance(node, ast.Assign) else [node.target]
            for t in targets:
                for n in ast.walk(t):
                    if isinstance(n, ast.Name) and n.id == 'filename':
                        rebound = True
                    if isinstance(n, ast.Attribute) and n.attr == 'filename' and isinstance(n.value, ast.Name) \
                            and n.value.id == 'self':
                        stores.append(node.value)
    if not stores:
        raise ExtractError('SQLiteConnection.__init__ does not assign self.filename')
    plain = all(isinstance(v, ast.Name) and v.id == 'filename' for v in stores)
    if plain and not rebound:
        return 'asGiven', 'self.filename = filename'
    return 'other', '; '.join('self.filename = ' + ast.unparse(v) for v in stores) + (' (filename is rebound)' if rebound else '')


def extract(repo):
    dbc = parse(repo, 'sqlobject/dbconnection.py')
    g = _expect(find_func(find_class(dbc, 'DBConnection'), 'uri'), GENERIC_SKELETON, 'DBConnection.uri')
    (a_user, e1, e2, user_safe, pw_sep, pw_safe, auth_end, a_pw, _msg, scheme_fmt, br_test, br_skip, br_fmt,
     port_fmt, path_sep, db_strip, db_safe) = g
    if (a_user, e1, e2, a_pw) != ('user', '', '', 'password'):
        raise ExtractError('DBConnection.uri reads other attributes / defaults: %r' % ((a_user, e1, e2, a_pw),))
    sp = _fmt(scheme_fmt, '%s', 'DBConnection.uri')
    if len(sp) != 3 or sp[0] != '' or sp[2] != '':
        raise ExtractError('scheme format is not "%%s<lit>%%s": %r' % scheme_fmt)
    pp = _fmt(port_fmt, '%d', 'DBConnection.uri')
    if len(pp) != 2 or pp[1] != '':
        raise ExtractError('port format is not "<lit>%%d": %r' % port_fmt)
    bp = _fmt(br_fmt, '%s', 'DBConnection.uri')
    if len(bp) != 2 or len(br_test) != 1:
        raise ExtractError('host bracketing is not "<lit>%%s<lit>" guarded by a one-character test: %r %r' % (br_fmt, br_test))
    if len(db_strip) != 1:
        raise ExtractError('db.startswith(%r) does not match db[1:]' % db_strip)

    sq = parse(repo, 'sqlobject/sqlite/sqliteconnection.py')
    scls = find_class(sq, 'SQLiteConnection')
    s = _expect(find_func(scls, 'uri'), SQLITE_SKELETON, 'SQLiteConnection.uri')
    mem_name, mem_path, abs_test, abs_prefix, rel_prefix, s_safe, s_fmt = s
    sf = _fmt(s_fmt, '%s', 'SQLiteConnection.uri')
    if len(sf) != 2 or sf[1] != '':
        raise ExtractError('sqlite format is not "<lit>%%s": %r' % s_fmt)
    o = _expect(find_func(scls, '_connectionFromParams'), SQLITE_OPEN_SKELETON,
                'SQLiteConnection._connectionFromParams')
    open_path, open_name = o[4], o[5]

    schemes = []
    for rel, cname in CONNECTIONS:
        cls = find_class(parse(repo, rel), cname)
        if any(isinstance(st, ast.FunctionDef) and st.name == 'uri' for st in cls.body):
            raise ExtractError('%s overrides uri(): not modelled' % cname)
        v = _class_attr(cls, 'dbName')
        if not (isinstance(v, ast.Constant) and isinstance(v.value, str)):
            raise ExtractError('%s.dbName is not a string literal' % cname)
        schemes.append((cname, v.value))
    sv = _class_attr(scls, 'dbName')
    if not (isinstance(sv, ast.Constant) and sv.value + ':' == sf[0]):
        raise ExtractError('SQLiteConnection.dbName %s does not match the uri prefix %r' % (ast.unparse(sv), sf[0]))

    L = lean_nat_list
    out = [HEADER % 'uri', '', 'namespace SqlObjVerif.Uri.Extracted', '']

    def d(name, val, doc):
        out.append('/-- %s -/' % doc)
        out.append('def %s : List Nat := %s' % (name, L(val)))

    d('userSafe', user_safe, '`quote(auth, safe=%r)` in `DBConnection.uri`' % user_safe)
    d('passwordSafe', pw_safe, '`quote(self.password, safe=%r)` in `DBConnection.uri`' % pw_safe)
    d('dbSafe', db_safe, '`quote(db)` in `DBConnection.uri` (urllib default `safe=\'/\'` when no argument is given)')
    d('passwordSep', pw_sep, 'separator between user and password')
    d('authEnd', auth_end, 'terminator of the userinfo part')
    d('schemeSep', sp[1], '`%r %% (self.dbName, auth)`: the literal between the two arguments' % scheme_fmt)
    d('hostBracketTest', br_test, '`%r in self.host`: the host is written in brackets' % br_test)
    d('hostBracketSkip', br_skip, '`and not self.host.startswith(%r)`' % br_skip)
    d('hostBracketOpen', bp[0], '`%r %% self.host`: the literal before the host' % br_fmt)
    d('hostBracketClose', bp[1], 'the literal after the host')
    d('portSep', pp[0], '`%r %% self.port`: the literal before the number' % port_fmt)
    d('pathSep', path_sep, '`uri += %r`' % path_sep)
    d('dbStrip', db_strip, '`db.startswith(%r)` then `db = db[1:]`' % db_strip)
    out.append('')
    d('sqliteMemoryName', mem_name, '`SQLiteConnection.uri`: `if path == %r`' % mem_name)
    d('sqliteMemoryPath', mem_path, '`path = %r`' % mem_path)
    d('sqliteAbsTest', abs_test, '`path.startswith(%r)`' % abs_test)
    d('sqliteAbsPrefix', abs_prefix, 'prefix of an absolute file name')
    d('sqliteRelPrefix', rel_prefix, 'prefix of any other file name')
    d('sqliteSafe', s_safe, '`quote(path)`')
    d('sqlitePrefix', sf[0], '`%r %% path`: the literal before the argument' % s_fmt)
    d('sqliteOpenMemoryPath', open_path, '`SQLiteConnection._connectionFromParams`: `if path == %r`' % open_path)
    d('sqliteOpenMemoryName', open_name, '`path = %r`' % open_name)
    out.append('')
    store, how = _init_store(find_func(scls, '__init__'))
    out.append('/-- how `SQLiteConnection.__init__` stores its `filename` argument -/')
    out.append('inductive InitStore | asGiven | other')
    out.append('deriving DecidableEq, Repr')
    out.append('/-- `%s` -/' % how.replace('-/', '- /'))
    out.append('def sqliteInitStore : InitStore := .%s' % store)
    out.append('')
    out.append('/-- `dbName` of the connection classes that inherit `DBConnection.uri`: %s -/'
               % ', '.join('%s=%r' % x for x in schemes))
    out.append('def schemes : List (List Nat) := [%s]' % ', '.join(L(v) for _, v in schemes))
    out.append('')
    out.append('end SqlObjVerif.Uri.Extracted')
    return '\n'.join(out) + '\n'
