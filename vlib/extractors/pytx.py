"""TRANSLATOR: the transaction code of sqlobject/dbconnection.py -> PyTx blocks.

`ConnectionHub.doInTransaction` and `Transaction.commit / rollback / begin / _makeObsolete / assertActive /
_SO_delete / _SO_update / __del__` are translated statement by statement into the deep embedding of
`lean/SqlObjVerif/Model/PyTx.lean`.  Anything outside the fragment raises ExtractError (the framework then
searches for a failing input and reports).  Conventions of the translation:
  * locals are numbered in order of first binding, the parameters after `self` first (`*args`, `**kw`
    count as parameters); comprehension variables and the temporaries of `return f(x)` / `self.a = f(x)` get slots too
    (`<m>_nargs`, `<m>_nlocals`); a behaviour-preserving rename of a local gives the same term;
  * a method call is a QUERY (an expression, assumed not to change anything) iff its name is in QUERIES;
    every other call must be a statement of its own (`x = r.m(..)`, `r.m(..)`, `return r.m(..)`), it goes
    through the interpreter's `call` / `callFn` parameter;
  * `self.threadConnection = v` is inlined as `self.threadingLocal.connection = v` after checking that the
    property's setter still is exactly that;
  * `x.extend(e)` is only accepted for a local bound once, by a list comprehension or `[]` (no alias);
  * the body of the n-th `for` loop of a method (source order) becomes its own definition `<m>_for<n>`;
  * `Transaction.__init__` and `DBConnection.transaction` are compared with the text the interface
    assumptions of Model/HubX.lean / Model/TxX.lean were written for.
"""
import ast
from . import ExtractError, parse, find_class, find_func, strip_doc, HEADER, lean_str

TARGET = 'PyTx'

HUB_METHODS = ['doInTransaction']
TX_METHODS = ['assertActive', '_SO_delete', '_SO_update', 'commit', 'rollback', '_makeObsolete', 'begin', '__del__']
QUERIES = ('allIDs', 'allSubCachesByClassNames', 'allSubCaches', 'tryGetByName', 'tryGet')
GLOBALS = ('PY2', 'connectionForURI', 'CommitSignal', 'RollbackSignal')
EXC_PAT = {'AttributeError': '.attributeError', 'KeyError': '.keyError', 'AssertionError': '.assertionError',
           'Exception': '.exception', 'BaseException': '.baseException'}
PROPERTIES = {'threadConnection': ['threadingLocal', 'connection']}

TX_INIT = ['self._obsolete = True', 'self._dbConnection = dbConnection',
           'self._connection = dbConnection.getConnection()',
           'self._dbConnection._setAutoCommit(self._connection, False)',
           'self.cache = CacheSet(cache=dbConnection.doCache)', 'self._deletedCache = {}', 'self._updatedCache = {}',
           'self._obsolete = False']


def lean_name(m):
    return {'__del__': 'del'}.get(m, m.lstrip('_'))


def _strs(path):
    return '[' + ', '.join(lean_str(p) for p in path) + ']'


def _self_path(n):
    """['a', 'b'] for `self.a.b`, [] for `self`, None otherwise"""
    path = []
    while isinstance(n, ast.Attribute):
        path.append(n.attr)
        n = n.value
    if isinstance(n, ast.Name) and n.id == 'self':
        return list(reversed(path))
    return None


def _attr_chain(n):
    """(root expression, ['a', 'b']) for `<root>.a.b` where root is not an attribute"""
    path = []
    while isinstance(n, ast.Attribute):
        path.append(n.attr)
        n = n.value
    return n, list(reversed(path))


def _is_none(n):
    return isinstance(n, ast.Constant) and n.value is None


class Method(object):
    def __init__(self, fn):
        self.fn = fn
        self.name = fn.name
        a = fn.args
        if a.kwonlyargs or a.posonlyargs or not a.args or a.args[0].arg != 'self' or fn.decorator_list:
            raise ExtractError('unexpected signature of %s' % fn.name)
        self.params = [x.arg for x in a.args[1:]]
        self.star = None
        if a.vararg or a.kwarg:
            if not (a.vararg and a.kwarg):
                raise ExtractError('%s: *args without **kw (or the reverse)' % fn.name)
            self.star = (a.vararg.arg, a.kwarg.arg)
            self.params += [a.vararg.arg, a.kwarg.arg]
        self.defaults = [self.const(d) for d in a.defaults]
        self.vars = list(self.params)
        self.fresh_lists = {}
        self.loops = []
        body = strip_doc(fn.body)
        self._collect(body)
        self.body = self.block(body)

    def fail(self, what, n=None):
        raise ExtractError('%s: %s%s' % (self.name, what, (': ' + ast.unparse(n).split('\n')[0]) if n is not None else ''))

    # ---- names ---------------------------------------------------------------------------
    def _collect(self, stmts):
        m = self
        counts = {}

        compvars = set()

        def bind(name, comp=False):
            if comp != (name in compvars) and name in m.vars:
                m.fail('%s is both a comprehension variable and a local' % name)
            if comp:
                compvars.add(name)
            counts[name] = counts.get(name, 0) + 1
            if name not in m.vars:
                m.vars.append(name)

        class V(ast.NodeVisitor):
            def visit_Assign(s, n):
                for t in n.targets:
                    if isinstance(t, ast.Name):
                        bind(t.id)
                        if isinstance(n.value, ast.ListComp) or (isinstance(n.value, ast.List) and not n.value.elts):
                            m.fresh_lists[t.id] = m.fresh_lists.get(t.id, 0) + 1
                    elif isinstance(t, (ast.Tuple, ast.List, ast.Starred)):
                        m.fail('unpacking assignment', n)
                s.generic_visit(n)

            def visit_AugAssign(s, n):
                m.fail('augmented assignment', n)

            def visit_For(s, n):
                ts = n.target.elts if isinstance(n.target, ast.Tuple) else [n.target]
                for t in ts:
                    if not isinstance(t, ast.Name):
                        m.fail('loop target outside the fragment', n)
                    bind(t.id)
                s.generic_visit(n)

            def visit_ListComp(s, n):
                if len(n.generators) != 1 or n.generators[0].ifs or n.generators[0].is_async \
                        or not isinstance(n.generators[0].target, ast.Name):
                    m.fail('comprehension outside the fragment', n)
                bind(n.generators[0].target.id, comp=True)
                s.generic_visit(n)

            def visit_FunctionDef(s, n):
                m.fail('nested function')

            visit_Lambda = visit_FunctionDef
            visit_GeneratorExp = visit_SetComp = visit_DictComp = visit_FunctionDef

            def visit_NamedExpr(s, n):
                m.fail('walrus')

            def visit_With(s, n):
                m.fail('with statement')

            def visit_Global(s, n):
                m.fail('global')

            visit_Nonlocal = visit_Global
            visit_While = visit_Global
            visit_Yield = visit_YieldFrom = visit_Await = visit_Global

            def visit_Delete(s, n):
                m.fail('del statement', n)

            def visit_ImportFrom(s, n):
                m.fail('import')

            visit_Import = visit_ImportFrom

            def visit_ExceptHandler(s, n):
                if n.name:
                    m.fail('except … as name')
                s.generic_visit(n)

        for st in stmts:
            V().visit(st)
        for n, c in m.fresh_lists.items():
            if counts.get(n, 0) != c or c != 1:
                m.fresh_lists[n] = 0

    def var(self, name):
        if name in self.vars:
            return self.vars.index(name)
        self.fail('name %s is not a parameter or local' % name)

    def temp(self):
        self.vars.append('<tmp%d>' % len(self.vars))
        return len(self.vars) - 1

    # ---- expressions ---------------------------------------------------------------------
    def const(self, n):
        if isinstance(n, ast.Constant):
            v = n.value
            if v is None:
                return '.none'
            if v is True or v is False:
                return '(.bool %s)' % ('true' if v else 'false')
            if isinstance(v, int) and v >= 0:
                return '(.int %d)' % v
            if isinstance(v, str):
                return '(.str %s)' % lean_str(v)
        self.fail('constant outside the fragment', n)

    def is_query(self, n):
        return isinstance(n, ast.Call) and isinstance(n.func, ast.Attribute) and n.func.attr in QUERIES \
            and not n.keywords and not any(isinstance(a, ast.Starred) for a in n.args)

    def is_pure_call(self, n):
        """calls that are expressions of the fragment"""
        if not isinstance(n, ast.Call):
            return False
        f = n.func
        if self.is_query(n):
            return True
        if isinstance(f, ast.Name) and f.id in ('list', 'isinstance'):
            return True
        if isinstance(f, ast.Attribute) and f.attr == 'items' and not n.args and not n.keywords:
            return True
        if isinstance(f, ast.Attribute) and f.attr == 'MethodType' and isinstance(f.value, ast.Name) \
                and f.value.id == 'types':
            return True
        return False

    def exprs(self, ns):
        out = '.nil'
        for e in reversed([self.expr(a) for a in ns]):
            out = '(.cons %s %s)' % (e, out)
        return out

    def expr(self, n):
        if isinstance(n, ast.Name):
            if n.id == 'self':
                return '.self'
            if n.id in self.vars:
                return '(.var %d)' % self.var(n.id)
            if n.id in GLOBALS:
                return '(.global %s)' % lean_str(n.id)
            self.fail('unknown name %s' % n.id)
        if isinstance(n, ast.Constant):
            return '(.const %s)' % self.const(n)
        if isinstance(n, ast.Attribute):
            p = _self_path(n)
            if p:
                if p[0] in PROPERTIES:
                    p = PROPERTIES[p[0]] + p[1:]
                return '(.selfAttr %s)' % _strs(p)
            root, path = _attr_chain(n)
            return '(.attrOf %s %s)' % (self.expr(root), _strs(path))
        if isinstance(n, ast.Tuple) and len(n.elts) == 2 and isinstance(n.ctx, ast.Load):
            return '(.pair %s %s)' % (self.expr(n.elts[0]), self.expr(n.elts[1]))
        if isinstance(n, ast.List) and not n.elts:
            return '.emptyList'
        if isinstance(n, ast.Dict) and not n.keys:
            return '(.const .nil)'
        if isinstance(n, ast.Subscript) and isinstance(n.slice, ast.Constant) and n.slice.value in (0, 1) \
                and not isinstance(n.slice.value, bool):
            return '(.idx %s %d)' % (self.expr(n.value), n.slice.value)
        if isinstance(n, ast.ListComp):
            g = n.generators[0]
            return '(.comp %d %s %s)' % (self.var(g.target.id), self.expr(g.iter), self.expr(n.elt))
        if isinstance(n, ast.Call) and not any(isinstance(a, ast.Starred) for a in n.args):
            f = n.func
            if isinstance(f, ast.Name) and f.id == 'list' and len(n.args) == 1 and not n.keywords:
                return '(.listOf %s)' % self.expr(n.args[0])
            if isinstance(f, ast.Attribute) and f.attr == 'items' and not n.args and not n.keywords:
                return '(.items %s)' % self.expr(f.value)
            if isinstance(f, ast.Attribute) and f.attr == 'MethodType' and isinstance(f.value, ast.Name) \
                    and f.value.id == 'types' and not n.keywords and len(n.args) in (2, 3):
                p = _self_path(n.args[0])
                ok = p and len(p) >= 2 and p[-1] == '__func__' and ast.unparse(n.args[1]) == 'self' \
                    and (len(n.args) == 2 or ast.unparse(n.args[2]) == 'self.__class__')
                if ok:
                    return '(.methodType %s)' % _strs(p[:-1])
            if self.is_query(n):
                return '(.query %s %s %s)' % (self.expr(f.value), lean_str(f.attr), self.exprs(n.args))
            self.fail('a call that is not a query must be a statement of its own', n)
        self.fail('expression outside the fragment', n)

    def cond(self, n):
        if isinstance(n, ast.UnaryOp) and isinstance(n.op, ast.Not):
            return '(.not %s)' % self.cond(n.operand)
        if isinstance(n, ast.BoolOp):
            op = 'and' if isinstance(n.op, ast.And) else 'or'
            parts = [self.cond(v) for v in n.values]
            out = parts[-1]
            for p in reversed(parts[:-1]):
                out = '(.%s %s %s)' % (op, p, out)
            return out
        if isinstance(n, ast.Compare):
            if len(n.ops) != 1:
                self.fail('chained comparison', n)
            op, rhs = n.ops[0], n.comparators[0]
            if isinstance(op, ast.Is) and _is_none(rhs):
                return '(.isNone %s)' % self.expr(n.left)
            if isinstance(op, ast.IsNot) and _is_none(rhs):
                return '(.isNotNone %s)' % self.expr(n.left)
            if isinstance(op, ast.In):
                return '(.inDict %s %s)' % (self.expr(n.left), self.expr(rhs))
            if isinstance(op, ast.NotIn):
                return '(.not (.inDict %s %s))' % (self.expr(n.left), self.expr(rhs))
            self.fail('comparison outside the fragment', n)
        if isinstance(n, ast.Call) and isinstance(n.func, ast.Name) and n.func.id == 'isinstance' \
                and len(n.args) == 2 and not n.keywords and isinstance(n.args[1], ast.Name):
            return '(.isinstance %s %s)' % (self.expr(n.args[0]), lean_str(n.args[1].id))
        return '(.truthy %s)' % self.expr(n)

    # ---- statements ----------------------------------------------------------------------
    def call_stmt(self, target, c):
        """an effectful call `[target =] c`; target: 'none' or '(some i)'"""
        f = c.func
        if self.star and isinstance(f, ast.Name) and len(c.args) == 1 and isinstance(c.args[0], ast.Starred) \
                and len(c.keywords) == 1 and c.keywords[0].arg is None \
                and isinstance(c.args[0].value, ast.Name) and isinstance(c.keywords[0].value, ast.Name):
            return '(.applyStar %s %d %d %d)' % (target, self.var(f.id), self.var(c.args[0].value.id),
                                                 self.var(c.keywords[0].value.id))
        if any(isinstance(a, ast.Starred) for a in c.args) or any(k.arg is None for k in c.keywords):
            self.fail('call with * or ** outside the fragment', c)
        if isinstance(f, ast.Attribute):
            return '(.call %s %s %s %s %s %s)' % (
                target, self.expr(f.value), lean_str(f.attr), self.exprs(c.args),
                _strs([k.arg for k in c.keywords]), self.exprs([k.value for k in c.keywords]))
        if isinstance(f, ast.Name) and not c.keywords:
            return '(.callFn %s %s %s)' % (target, self.expr(f), self.exprs(c.args))
        self.fail('call outside the fragment', c)

    def loop(self, body):
        idx = len(self.loops)
        self.loops.append(None)
        self.loops[idx] = self.block(body)
        return '%s_for%d' % (lean_name(self.name), idx)

    def stmt(self, n):
        """-> list of translated statements"""
        if isinstance(n, ast.Pass):
            return ['.pass']
        if isinstance(n, ast.Return):
            if n.value is None or _is_none(n.value):
                return ['.retNone']
            if isinstance(n.value, ast.Call) and not self.is_pure_call(n.value):
                t = self.temp()
                return [self.call_stmt('(some %d)' % t, n.value), '(.ret (.var %d))' % t]
            return ['(.ret %s)' % self.expr(n.value)]
        if isinstance(n, ast.Raise):
            if n.exc is None and n.cause is None:
                return ['.reraise']
            self.fail('only a bare `raise` is in the fragment', n)
        if isinstance(n, ast.Assert):
            if n.msg is not None and not (isinstance(n.msg, ast.Constant) and isinstance(n.msg.value, str)):
                self.fail('assert message outside the fragment', n)
            return ['(.assert %s)' % self.cond(n.test)]
        if isinstance(n, ast.If):
            return ['(.ite %s %s %s)' % (self.cond(n.test), self.block(n.body), self.block(n.orelse))]
        if isinstance(n, ast.Assign) and len(n.targets) == 1:
            t, v = n.targets[0], n.value
            if isinstance(t, ast.Name):
                if isinstance(v, ast.Call) and not self.is_pure_call(v):
                    return [self.call_stmt('(some %d)' % self.var(t.id), v)]
                return ['(.assign %d %s)' % (self.var(t.id), self.expr(v))]
            p = _self_path(t)
            if p:
                if p[0] in PROPERTIES:
                    p = PROPERTIES[p[0]] + p[1:]
                if isinstance(v, ast.Call) and not self.is_pure_call(v):
                    tmp = self.temp()
                    return [self.call_stmt('(some %d)' % tmp, v), '(.setAttr %s (.var %d))' % (_strs(p), tmp)]
                return ['(.setAttr %s %s)' % (_strs(p), self.expr(v))]
            if isinstance(t, ast.Subscript) and _self_path(t.value) and not isinstance(t.slice, (ast.Slice, ast.Tuple)):
                return ['(.setItem %s %s %s)' % (_strs(_self_path(t.value)), self.expr(t.slice), self.expr(v))]
        if isinstance(n, ast.Expr) and isinstance(n.value, ast.Call):
            c, f = n.value, n.value.func
            if isinstance(f, ast.Attribute) and f.attr == 'append' and len(c.args) == 1 and not c.keywords \
                    and isinstance(f.value, ast.Subscript) and _self_path(f.value.value) \
                    and not isinstance(f.value.slice, (ast.Slice, ast.Tuple)):
                return ['(.itemAppend %s %s %s)' % (_strs(_self_path(f.value.value)), self.expr(f.value.slice),
                                                    self.expr(c.args[0]))]
            if isinstance(f, ast.Attribute) and f.attr == 'extend' and len(c.args) == 1 and not c.keywords \
                    and isinstance(f.value, ast.Name):
                if self.fresh_lists.get(f.value.id) != 1:
                    self.fail('extend() of something that is not a fresh list local', n)
                return ['(.extend %d %s)' % (self.var(f.value.id), self.expr(c.args[0]))]
            if isinstance(f, ast.Attribute) and f.attr in ('append', 'extend', 'update', 'pop', 'clear', 'remove',
                                                           'insert', 'setdefault', 'sort', 'reverse'):
                self.fail('mutation of a container outside the fragment', n)
            if self.is_pure_call(c):
                self.fail('query used as a statement', n)
            return [self.call_stmt('none', c)]
        if isinstance(n, ast.For) and not n.orelse:
            it, t = n.iter, n.target
            if isinstance(it, ast.Name):
                for sub in n.body:
                    for x in ast.walk(sub):
                        if (isinstance(x, ast.Name) and x.id == it.id and isinstance(x.ctx, (ast.Store, ast.Del))) or \
                                (isinstance(x, ast.Call) and isinstance(x.func, ast.Attribute)
                                 and isinstance(x.func.value, ast.Name) and x.func.value.id == it.id):
                            self.fail('loop over %s changes it' % it.id)
            elif not (isinstance(it, ast.Call) and isinstance(it.func, ast.Name) and it.func.id == 'list'):
                self.fail('loop over something that is not a local or list(…)', n)
            ite = self.expr(it)
            if isinstance(t, ast.Name):
                return ['(.for1 %d %s %s)' % (self.var(t.id), ite, self.loop(n.body))]
            if isinstance(t, ast.Tuple) and len(t.elts) == 2 and t.elts[0].id != t.elts[1].id:
                return ['(.for2 %d %d %s %s)' % (self.var(t.elts[0].id), self.var(t.elts[1].id), ite, self.loop(n.body))]
        if isinstance(n, ast.Try):
            out = None
            if n.handlers:
                h = n.handlers[0]
                if len(n.handlers) != 1 or not isinstance(h.type, ast.Name) or h.type.id not in EXC_PAT or h.name:
                    self.fail('only one `except <known class>:` is in the fragment', n)
                out = '(.tryExcept %s %s %s %s)' % (self.block(n.body), EXC_PAT[h.type.id], self.block(h.body),
                                                    self.block(n.orelse))
            elif n.orelse:
                self.fail('try/else without except')
            if n.finalbody:
                inner = ('(.cons %s\n    .nil)' % out) if out else self.block(n.body)
                out = '(.tryFinally %s %s)' % (inner, self.block(n.finalbody))
            if out:
                return [out]
        self.fail('statement outside the fragment', n)

    def block(self, stmts):
        parts = []
        for s in stmts:
            parts += self.stmt(s)
        out = '.nil'
        for p in reversed(parts):
            out = '(.cons %s\n    %s)' % (p, out)
        return out


def _check_text(what, fn, want):
    src = [ast.unparse(s) for s in strip_doc(fn.body)]
    if src != want:
        raise ExtractError('%s changed: %r' % (what, src))


def _check_property(hub):
    _check_text('ConnectionHub._set_threadConnection', find_func(hub, '_set_threadConnection'),
                ['self.threadingLocal.connection = value'])
    for s in hub.body:
        if isinstance(s, ast.Assign) and len(s.targets) == 1 and isinstance(s.targets[0], ast.Name) \
                and s.targets[0].id == 'threadConnection':
            if ast.unparse(s.value) != 'property(_get_threadConnection, _set_threadConnection, _del_threadConnection)':
                raise ExtractError('ConnectionHub.threadConnection changed: %s' % ast.unparse(s.value))
            return
    raise ExtractError('ConnectionHub.threadConnection is no longer a property')


def _no_property(cls, names):
    """none of `names` may be (re)defined at class level (a property would change what an assignment means)"""
    for s in cls.body:
        ts = []
        if isinstance(s, ast.Assign):
            ts = [t.id for t in s.targets if isinstance(t, ast.Name)]
        elif isinstance(s, ast.FunctionDef):
            ts = [s.name]
        for t in ts:
            if t in names:
                raise ExtractError('%s.%s is defined at class level' % (cls.name, t))


def extract(repo):
    tree = parse(repo, 'sqlobject/dbconnection.py')
    hub = find_class(tree, 'ConnectionHub')
    tx = find_class(tree, 'Transaction')
    _check_property(hub)
    _no_property(hub, ('processConnection', 'threadingLocal'))
    _no_property(tx, ('_obsolete', '_connection', '_deletedCache', '_updatedCache', '_dbConnection', 'cache'))
    _check_text('Transaction.__init__', find_func(tx, '__init__'), TX_INIT)
    _check_text('DBAPI.transaction', find_func(find_class(tree, 'DBAPI'), 'transaction'), ['return Transaction(self)'])
    if any(isinstance(s, ast.FunctionDef) and s.name == '__setattr__' for s in hub.body + tx.body):
        raise ExtractError('__setattr__ defined on ConnectionHub / Transaction')
    lines = [HEADER % 'pytx', 'import SqlObjVerif.Model.PyTx', '',
             'namespace SqlObjVerif.PyTx.Extracted', 'open SqlObjVerif.PyTx', '']
    for cls, names in ((hub, HUB_METHODS), (tx, TX_METHODS)):
        for name in names:
            m = Method(find_func(cls, name))
            ln = lean_name(name)
            for i in reversed(range(len(m.loops))):
                lines += ['/-- body of `for` loop %d of `%s.%s` -/' % (i, cls.name, name),
                          'def %s_for%d : Block :=\n  %s' % (ln, i, m.loops[i]), '']
            lines += ['/-- `%s.%s(%s)`, translated; locals: %s -/'
                      % (cls.name, name, ', '.join(['self'] + m.params),
                         ', '.join('%s=%d' % (v, i) for i, v in enumerate(m.vars)) or '-'),
                      'def %sProg : Block :=\n  %s' % (ln, m.body),
                      'def %s_nargs : Nat := %d' % (ln, len(m.params)),
                      'def %s_nlocals : Nat := %d' % (ln, len(m.vars) - len(m.params)),
                      'def %s_defaults : List Val := [%s]' % (ln, ', '.join(m.defaults)), '']
    lines.append('end SqlObjVerif.PyTx.Extracted')
    return '\n'.join(lines) + '\n'
