"""TRANSLATOR: the CALLERS of the identity map -> PyGet blocks (property C04).

`SQLObject.get / _init / _SO_finishCreate / expire / __getstate__ / __setstate__ / _SO_fetchAlternateID /
_SO_foreignKey / delete`, `sqlmeta.expireAll`, `DBConnection.expireAll`, the tail of `SQLObject.destroySelf` (from `self._connection._SO_delete(self)` on),
`Iteration.next` (dbconnection.py) and the methods of `cache.py:CacheSet` are translated statement by statement
into the deep embedding of `lean/SqlObjVerif/Model/PyGet.lean`.  Anything outside the fragment raises ExtractError
(the framework then searches for a failing input and reports).  Conventions:
  * the first parameter (`self`, or `cls` of a `@classmethod`) is `.self`; the other parameters and the locals are
    numbered in order of first binding, parameters first; temporaries of hoisted calls come last (`<m>_params`,
    `<m>_nlocals`); a behaviour-preserving rename of a local gives the same term;
  * every call other than `getattr(e, 'n', d)` and `e.values()` goes through the interpreter's `call` (method of a
    value) or `callFn` (call of a value: `cls(…)`, `cls.sqlmeta.idType(id)` is a method call, `threading.Lock()` a
    call of a global) parameter and is hoisted to a statement of its own, in evaluation order, out of: `x = CALL`,
    `a, b = CALL`, `CALL`, `return CALL`, `obj.a = CALL`, the receiver and the arguments of a call, the test of an
    `if` (`if CALL`, `if not CALL`, `if CALL is [not] None`);
  * OPAQUE statements: a statement that calls none of the names in CRIT_CALL, stores to none of the attributes in
    CRIT_STORE, mentions none of CRIT_ANY, calls neither `cls`/`self` nor a local, and contains no
    return / raise / break / continue / yield of the translated function is kept as `.opaq <locals it binds> "<its
    source, locals replaced by $<slot>>"`; what such a text does is stated by the instantiation
    (`Model/GetX.lean`: nothing the identity map can see), an unknown text is `stuck`.  The same for an argument
    expression outside the fragment (`.opaq` expression);
  * `raise C(msg)` / `raise C` keeps the class only (the message must not call anything but `repr`);
    `assert c, msg` likewise;
  * the body of the n-th translated `for` loop of a function (source order) becomes its own definition
    `<m>_loop<n>`;
  * `destroySelf`: everything before the tail must not mention `cache`, `_obsolete`, `expired` (checked).
"""
import ast
import copy
from . import ExtractError, parse, find_class, find_func, strip_doc, HEADER


def lean_str(s):
    out = ['"']
    for ch in s:
        o = ord(ch)
        if ch == '"':
            out.append('\\"')
        elif ch == '\\':
            out.append('\\\\')
        elif ch == '\n':
            out.append('\\n')
        elif 32 <= o < 127:
            out.append(ch)
        elif o < 0x10000:
            out.append('\\u%04x' % o)
        else:
            raise ExtractError('character outside the BMP in a source text')
    out.append('"')
    return ''.join(out)

TARGET = 'PyGet'

MAIN = 'sqlobject/main.py'
DBC = 'sqlobject/dbconnection.py'
CACHE = 'sqlobject/cache.py'

# (file, class, method, lean name, tail marker or None)
FUNCS = [
    (MAIN, 'SQLObject', 'get', 'get', None),
    (MAIN, 'SQLObject', '_init', 'initRow', None),
    (MAIN, 'SQLObject', '_SO_finishCreate', 'finishCreate', None),
    (MAIN, 'SQLObject', 'destroySelf', 'destroyTail', 'self._connection._SO_delete(self)'),
    (MAIN, 'SQLObject', 'expire', 'expire', None),
    (MAIN, 'SQLObject', '__getstate__', 'getstate', None),
    (MAIN, 'SQLObject', '__setstate__', 'setstate', None),
    (MAIN, 'SQLObject', '_SO_fetchAlternateID', 'fetchAlternateID', None),
    (MAIN, 'SQLObject', '_SO_foreignKey', 'foreignKey', None),
    (MAIN, 'SQLObject', 'delete', 'delete', None),
    (MAIN, 'sqlmeta', 'expireAll', 'metaExpireAll', None),
    (DBC, 'DBConnection', 'expireAll', 'connExpireAll', None),
    (DBC, 'Iteration', 'next', 'iterNext', None),
    (CACHE, 'CacheSet', 'get', 'csGet', None),
    (CACHE, 'CacheSet', 'put', 'csPut', None),
    (CACHE, 'CacheSet', 'finishPut', 'csFinishPut', None),
    (CACHE, 'CacheSet', 'created', 'csCreated', None),
    (CACHE, 'CacheSet', 'expire', 'csExpire', None),
    (CACHE, 'CacheSet', 'clear', 'csClear', None),
    (CACHE, 'CacheSet', 'tryGet', 'csTryGet', None),
    (CACHE, 'CacheSet', 'tryGetByName', 'csTryGetByName', None),
    (CACHE, 'CacheSet', 'allIDs', 'csAllIDs', None),
    (CACHE, 'CacheSet', 'allSubCaches', 'csAllSubCaches', None),
    (CACHE, 'CacheSet', 'allSubCachesByClassNames', 'csAllSubCachesByClassNames', None),
    (CACHE, 'CacheSet', 'weakrefAll', 'csWeakrefAll', None),
    (CACHE, 'CacheSet', 'getAll', 'csGetAll', None),
]

CACHESET_INIT = ['self.caches = {}', 'self.args = args', 'self.kw = kw']

GLOBALS = ('sqlbuilder', 'threading', 'CacheFactory')
EXC = {'SQLObjectNotFound': '.notFound', 'ValueError': '.valueError', 'StopIteration': '.stopIteration',
       'PicklingError': '.picklingError', 'KeyError': '.keyError'}
EXC_PAT = {'KeyError': '.keyError'}

CRIT_CALL = {'extend', 'get', 'put', 'finishPut', 'created', 'expire', 'expireAll', 'tryGet', 'tryGetByName', 'clear',
             'allIDs', 'getAll', 'allSubCaches', 'allSubCachesByClassNames', 'weakrefAll', '_init', '__init__',
             '__setstate__', '__getstate__', 'update', 'copy', 'queryInsertID', '_SO_selectOne', '_SO_selectInit',
             '_SO_delete', '_findAlternateID', 'fetchone', '_cleanup', 'select', 'getOne', 'destroySelf', 'delete',
             'acquire', 'release', 'setdefault', 'CacheFactory', 'idType', 'Lock', 'byAlternateID'}
CRIT_STORE = {'id', '_obsolete', 'expired', 'dirty', '_SO_writeLock', '_connection', '_perConnection', 'caches',
              'cache'}
CRIT_ANY = {'__dict__', 'cache', 'caches', '_connection'}
TAIL_GUARD = {'cache', '_obsolete', 'expired', 'expire'}


def _strs(path):
    return '[' + ', '.join(lean_str(p) for p in path) + ']'


def _attr_chain(n):
    path = []
    while isinstance(n, ast.Attribute):
        path.append(n.attr)
        n = n.value
    return n, list(reversed(path))


def _is_none(n):
    return isinstance(n, ast.Constant) and n.value is None


def _own_nodes(n):
    """the nodes of `n` that belong to the enclosing function (not to a nested def / lambda body)"""
    out = []
    stack = [n]
    first = True
    while stack:
        x = stack.pop()
        out.append(x)
        if isinstance(x, (ast.FunctionDef, ast.Lambda, ast.AsyncFunctionDef)) and not first:
            continue
        first = False
        stack.extend(ast.iter_child_nodes(x))
    return out


class Method(object):
    def __init__(self, fn, lname, marker=None):
        self.fn = fn
        self.name = fn.name
        self.lname = lname
        a = fn.args
        decos = [ast.unparse(d) for d in fn.decorator_list]
        if a.kwonlyargs or a.posonlyargs or a.vararg or a.kwarg or not a.args or decos not in ([], ['classmethod']):
            raise ExtractError('unexpected signature of %s' % fn.name)
        self.me = a.args[0].arg
        if not decos and self.me != 'self':
            raise ExtractError('%s: first parameter is %s' % (fn.name, self.me))
        self.params = [x.arg for x in a.args[1:]]
        self.vars = list(self.params)
        self.defaults = [self.const(d) for d in a.defaults]
        self.loops = []
        body = strip_doc(fn.body)
        self._collect(body)
        self._fresh_lists(body)
        if marker is not None:
            idx = [i for i, s in enumerate(body) if ast.unparse(s) == marker]
            if len(idx) != 1:
                self.fail('expected exactly one top-level `%s`' % marker)
            for s in body[:idx[0]]:
                for x in ast.walk(s):
                    nm = x.id if isinstance(x, ast.Name) else x.attr if isinstance(x, ast.Attribute) else None
                    if nm in TAIL_GUARD:
                        self.fail('the part before `%s` mentions %s' % (marker, nm), s)
            body = body[idx[0]:]
        self.body = self.block(body)

    def fail(self, what, n=None):
        raise ExtractError('%s: %s%s' % (self.name, what, (': ' + ast.unparse(n).split('\n')[0]) if n is not None else ''))

    # ---- names ---------------------------------------------------------------------------
    def _collect(self, stmts):
        m = self

        def bind(name):
            if name == m.me:
                m.fail('%s is rebound' % m.me)
            if name not in m.vars:
                m.vars.append(name)

        class V(ast.NodeVisitor):
            def visit_Name(s, n):
                if isinstance(n.ctx, (ast.Store, ast.Del)):
                    bind(n.id)

            def visit_FunctionDef(s, n):
                bind(n.name)        # the body has its own scope

            def visit_Lambda(s, n):
                pass

            def visit_ListComp(s, n):
                pass                # comprehension variables have their own scope (Python 3)

            visit_GeneratorExp = visit_SetComp = visit_DictComp = visit_ListComp

            def visit_AugAssign(s, n):
                s.generic_visit(n)

            def visit_NamedExpr(s, n):
                m.fail('walrus')

            def visit_With(s, n):
                m.fail('with statement')

            def visit_Global(s, n):
                m.fail('global')

            visit_Nonlocal = visit_Global
            visit_Yield = visit_YieldFrom = visit_Await = visit_Global

            def visit_While(s, n):
                m.fail('while loop')

            def visit_ImportFrom(s, n):
                for al in n.names:
                    if al.asname or al.name not in EXC:
                        m.fail('import', n)

            def visit_Import(s, n):
                m.fail('import', n)

            def visit_ExceptHandler(s, n):
                if n.name:
                    m.fail('except … as name')
                s.generic_visit(n)

        v = V()
        for st in stmts:
            v.visit(st)

    def _fresh_lists(self, stmts):
        """locals bound only by `x = []` and used only as `x.extend(..)`, `return x`: no alias can exist"""
        binds, other = {}, set()
        for st in stmts:
            for x in ast.walk(st):
                if isinstance(x, ast.Assign) and len(x.targets) == 1 and isinstance(x.targets[0], ast.Name):
                    binds.setdefault(x.targets[0].id, []).append(isinstance(x.value, ast.List) and not x.value.elts)
        for st in stmts:
            parents = {}
            for x in ast.walk(st):
                for ch in ast.iter_child_nodes(x):
                    parents[id(ch)] = x
            for x in ast.walk(st):
                if isinstance(x, ast.Name) and isinstance(x.ctx, ast.Load):
                    par = parents.get(id(x))
                    ok = isinstance(par, ast.Return) or (isinstance(par, ast.Attribute) and par.attr == 'extend'
                                                          and isinstance(parents.get(id(par)), ast.Call))
                    if not ok:
                        other.add(x.id)
        self.fresh_lists = set(n for n, bs in binds.items() if all(bs) and n not in other and n not in self.params)

    def var(self, name):
        if name in self.vars:
            return self.vars.index(name)
        self.fail('name %s is not a parameter or local' % name)

    def temp(self):
        self.vars.append('<tmp%d>' % len(self.vars))
        return len(self.vars) - 1

    # ---- opaque --------------------------------------------------------------------------
    def is_critical(self, n):
        for x in ast.walk(n):
            if isinstance(x, ast.Call):
                f = x.func
                if isinstance(f, ast.Attribute) and f.attr in CRIT_CALL:
                    return True
                if isinstance(f, ast.Name) and (f.id in CRIT_CALL or f.id == self.me or f.id in self.params):
                    return True
                if isinstance(f, ast.Call):
                    return True
            if isinstance(x, ast.Attribute) and isinstance(x.ctx, (ast.Store, ast.Del)) and x.attr in CRIT_STORE:
                return True
            if isinstance(x, ast.Name) and isinstance(x.ctx, (ast.Store, ast.Del)) and x.id in CRIT_STORE:
                return True
            nm = x.id if isinstance(x, ast.Name) else x.attr if isinstance(x, ast.Attribute) else None
            if nm in CRIT_ANY:
                return True
        return False

    def opaque_ok(self, n):
        if self.is_critical(n):
            return False
        for x in _own_nodes(n):
            if isinstance(x, (ast.Return, ast.Raise, ast.Break, ast.Continue, ast.Yield, ast.YieldFrom, ast.Await)):
                return False
        return True

    def norm_src(self, n):
        m = self
        n = copy.deepcopy(n)

        class T(ast.NodeTransformer):
            def visit_Name(s, x):
                if x.id in m.vars:
                    return ast.copy_location(ast.Name(id='$%d' % m.vars.index(x.id), ctx=x.ctx), x)
                return x

            def visit_FunctionDef(s, x):
                if x.name in m.vars:
                    x.name = '$%d' % m.vars.index(x.name)
                s.generic_visit(x)
                return x

        return ast.unparse(ast.fix_missing_locations(T().visit(n)))

    def opaque_stmt(self, n):
        binds = []
        for x in _own_nodes(n):
            if isinstance(x, ast.Name) and isinstance(x.ctx, ast.Store) and x.id in self.vars:
                binds.append(self.var(x.id))
            if isinstance(x, ast.FunctionDef) and x.name in self.vars:
                binds.append(self.var(x.name))
        # comprehension variables are not locals: drop what a comprehension binds
        comp = set()
        for x in ast.walk(n):
            if isinstance(x, ast.comprehension):
                for y in ast.walk(x.target):
                    if isinstance(y, ast.Name):
                        comp.add(y.id)
        binds = sorted(set(b for b in binds if self.vars[b] not in comp or self._bound_outside_comp(n, self.vars[b])))
        return '(.opaq [%s] %s)' % (', '.join(str(b) for b in binds), lean_str(self.norm_src(n)))

    def _bound_outside_comp(self, n, name):
        inside = set()
        for x in ast.walk(n):
            if isinstance(x, ast.comprehension):
                for y in ast.walk(x.target):
                    inside.add(id(y))
        for x in _own_nodes(n):
            if isinstance(x, ast.Name) and isinstance(x.ctx, ast.Store) and x.id == name and id(x) not in inside:
                return True
        return False

    # ---- expressions ---------------------------------------------------------------------
    def const(self, n):
        if isinstance(n, ast.Constant):
            v = n.value
            if v is None:
                return '.none'
            if v is True or v is False:
                return '(.bool %s)' % ('true' if v else 'false')
            if isinstance(v, int) and v >= 0:
                return '(.int %d)' % v
            if isinstance(v, str):
                return '(.str %s)' % lean_str(v)
        self.fail('constant outside the fragment', n)

    def is_pure_call(self, n):
        if not isinstance(n, ast.Call):
            return False
        f = n.func
        if isinstance(f, ast.Name) and f.id == 'getattr' and len(n.args) == 3 and not n.keywords \
                and isinstance(n.args[1], ast.Constant) and isinstance(n.args[1].value, str):
            return True
        if isinstance(f, ast.Attribute) and f.attr == 'values' and not n.args and not n.keywords:
            return True
        return False

    def expr(self, n):
        if isinstance(n, ast.Name):
            if n.id == self.me:
                return '.self'
            if n.id in self.vars:
                return '(.var %d)' % self.var(n.id)
            if n.id in GLOBALS:
                return '(.global %s)' % lean_str(n.id)
            self.fail('unknown name %s' % n.id)
        if isinstance(n, ast.Constant):
            return '(.const %s)' % self.const(n)
        if isinstance(n, ast.Attribute):
            root, path = _attr_chain(n)
            if isinstance(root, ast.Name) and root.id in GLOBALS and root.id not in self.vars:
                return '(.global %s)' % lean_str('.'.join([root.id] + path))
            return '(.attrOf %s %s)' % (self.expr(root), _strs(path))
        if isinstance(n, ast.BoolOp) and isinstance(n.op, ast.Or) and len(n.values) == 2:
            return '(.orElse %s %s)' % (self.expr(n.values[0]), self.expr(n.values[1]))
        if isinstance(n, ast.List) and not n.elts:
            return '.emptyList'
        if isinstance(n, ast.Dict) and not n.keys:
            return '.emptyDict'
        if isinstance(n, ast.Subscript):
            sl = n.slice
            if isinstance(sl, ast.Constant) and sl.value == 0 and sl.value is not False:
                return '(.idx0 %s)' % self.expr(n.value)
            if isinstance(sl, ast.Slice) and sl.upper is None and sl.step is None \
                    and isinstance(sl.lower, ast.Constant) and sl.lower.value == 1 and sl.lower.value is not True:
                return '(.tail %s)' % self.expr(n.value)
            if not isinstance(sl, (ast.Slice, ast.Tuple, ast.Constant)):
                return '(.subscript %s %s)' % (self.expr(n.value), self.expr(sl))
        if isinstance(n, ast.Call) and self.is_pure_call(n):
            f = n.func
            if isinstance(f, ast.Name):
                return '(.getattrD %s %s %s)' % (self.expr(n.args[0]), lean_str(n.args[1].value), self.expr(n.args[2]))
            return '(.valuesOf %s)' % self.expr(f.value)
        if isinstance(n, ast.Call):
            self.fail('a call must be hoistable to a statement of its own', n)
        self.fail('expression outside the fragment', n)

    def arg(self, n, pre):
        """an argument / receiver: hoists calls into `pre`; an expression outside the fragment that calls nothing
        critical is kept opaque"""
        if isinstance(n, ast.Call) and not self.is_pure_call(n):
            t = self.temp()
            pre.extend(self.call_stmt('(some %d)' % t, n))
            return '(.var %d)' % t
        try:
            return self.expr(n)
        except ExtractError:
            if self.is_critical(n) or any(isinstance(x, (ast.Yield, ast.Await, ast.NamedExpr)) for x in ast.walk(n)):
                raise
            return '(.opaq %s)' % lean_str(self.norm_src(n))

    def cond(self, n, pre):
        if isinstance(n, ast.UnaryOp) and isinstance(n.op, ast.Not):
            return '(.not %s)' % self.cond(n.operand, pre)
        if isinstance(n, ast.BoolOp):
            op = 'and' if isinstance(n.op, ast.And) else 'or'
            # no hoisting out of a short-circuit operand
            parts = [self.cond(v, None) for v in n.values]
            out = parts[-1]
            for p in reversed(parts[:-1]):
                out = '(.%s %s %s)' % (op, p, out)
            return out
        if isinstance(n, ast.Compare):
            if len(n.ops) != 1:
                self.fail('chained comparison', n)
            op, rhs = n.ops[0], n.comparators[0]
            if isinstance(op, (ast.Is, ast.IsNot)):
                neg = isinstance(op, ast.IsNot)
                if _is_none(rhs):
                    return '(.%s %s)' % ('isNotNone' if neg else 'isNone', self.cexpr(n.left, pre))
                c = '(.is %s %s)' % (self.cexpr(n.left, pre), self.cexpr(rhs, pre))
                return '(.not %s)' % c if neg else c
            if isinstance(op, (ast.In, ast.NotIn)):
                c = '(.inE %s %s)' % (self.cexpr(n.left, pre), self.cexpr(rhs, pre))
                return '(.not %s)' % c if isinstance(op, ast.NotIn) else c
            self.fail('comparison outside the fragment', n)
        return '(.truthy %s)' % self.cexpr(n, pre)

    def cexpr(self, n, pre):
        if isinstance(n, ast.Call) and not self.is_pure_call(n):
            if pre is None:
                self.fail('a call inside and/or cannot be hoisted', n)
            return self.arg(n, pre)
        return self.expr(n)

    # ---- statements ----------------------------------------------------------------------
    def call_stmt(self, target, c):
        """-> statements for the effectful call `[target =] c` (hoisted inner calls first)"""
        f = c.func
        pre = []
        stars = [a.value for a in c.args if isinstance(a, ast.Starred)]
        pos = [a for a in c.args if not isinstance(a, ast.Starred)]
        if stars and (len(stars) > 1 or not isinstance(c.args[-1], ast.Starred)):
            self.fail('* must be the last positional argument, once', c)
        dstars = [k.value for k in c.keywords if k.arg is None]
        kws = [k for k in c.keywords if k.arg is not None]
        if len(dstars) > 1 or (dstars and c.keywords[-1].arg is not None):
            self.fail('** must be the last argument, once', c)
        if isinstance(f, ast.Attribute):
            recv = self.arg(f.value, pre)
            is_global = isinstance(_attr_chain(f)[0], ast.Name) and _attr_chain(f)[0].id in GLOBALS \
                and _attr_chain(f)[0].id not in self.vars
        else:
            recv, is_global = None, False
        args = [self.arg(a, pre) for a in pos]
        kwv = [self.arg(k.value, pre) for k in kws]
        kwn = _strs([k.arg for k in kws])
        la = '[' + ', '.join(args) + ']'
        lk = '[' + ', '.join(kwv) + ']'
        if isinstance(f, ast.Attribute) and not is_global:
            if stars or dstars:
                self.fail('method call with * / **', c)
            return pre + ['(.call %s %s %s %s %s %s)' % (target, recv, lean_str(f.attr), la, kwn, lk)]
        if isinstance(f, ast.Attribute) or (isinstance(f, ast.Name) and (f.id == self.me or f.id in self.vars
                                                                        or f.id in GLOBALS)):
            star = '(some %s)' % self.expr(stars[0]) if stars else 'none'
            dstar = '(some %s)' % self.expr(dstars[0]) if dstars else 'none'
            return pre + ['(.callFn %s %s %s %s %s %s %s)' % (target, self.expr(f), la, kwn, lk, star, dstar)]
        self.fail('call outside the fragment', c)

    def loop(self, body):
        idx = len(self.loops)
        self.loops.append(None)
        self.loops[idx] = self.block(body)
        return '%s_loop%d' % (self.lname, idx)

    def _pure_msg(self, n):
        for x in ast.walk(n):
            if isinstance(x, ast.Call) and not (isinstance(x.func, ast.Name) and x.func.id == 'repr'):
                return False
            if isinstance(x, (ast.Yield, ast.Await, ast.NamedExpr, ast.Lambda)):
                return False
        return True

    def stmt(self, n):
        """-> list of translated statements"""
        if isinstance(n, ast.Pass):
            return ['.pass']
        if isinstance(n, ast.ImportFrom):
            return ['.pass']                     # `from pickle import PicklingError` (checked in _collect)
        if isinstance(n, ast.Return):
            if n.value is None or _is_none(n.value):
                return ['.retNone']
            pre = []
            e = self.arg(n.value, pre)
            return pre + ['(.ret %s)' % e]
        if isinstance(n, ast.Raise):
            if n.cause is None and n.exc is not None:
                e = n.exc
                if isinstance(e, ast.Name) and e.id in EXC:
                    return ['(.raise %s)' % EXC[e.id]]
                if isinstance(e, ast.Call) and isinstance(e.func, ast.Name) and e.func.id in EXC \
                        and not e.keywords and all(self._pure_msg(a) for a in e.args):
                    return ['(.raise %s)' % EXC[e.func.id]]
            self.fail('raise outside the fragment', n)
        if isinstance(n, ast.Assert):
            if n.msg is not None and not self._pure_msg(n.msg):
                self.fail('assert message calls something', n)
            pre = []
            c = self.cond(n.test, pre)
            return pre + ['(.assert %s)' % c]
        # a local bound to a pure expression of the fragment
        if isinstance(n, ast.Assign) and len(n.targets) == 1 and isinstance(n.targets[0], ast.Name) \
                and not isinstance(n.value, ast.Call):
            try:
                return ['(.assign %d %s)' % (self.var(n.targets[0].id), self.expr(n.value))]
            except ExtractError:
                if self.is_critical(n):
                    raise
        if isinstance(n, (ast.Assign, ast.AugAssign, ast.Delete, ast.Expr, ast.For, ast.If, ast.FunctionDef, ast.Try)) \
                and self.opaque_ok(n):
            return [self.opaque_stmt(n)]
        if isinstance(n, ast.If):
            pre = []
            c = self.cond(n.test, pre)
            return pre + ['(.ite %s %s %s)' % (c, self.block(n.body), self.block(n.orelse))]
        if isinstance(n, ast.Assign) and len(n.targets) == 1:
            t, v = n.targets[0], n.value
            if isinstance(t, ast.Name):
                if isinstance(v, ast.Call) and not self.is_pure_call(v):
                    return self.call_stmt('(some %d)' % self.var(t.id), v)
                return ['(.assign %d %s)' % (self.var(t.id), self.expr(v))]
            if isinstance(t, ast.Tuple) and len(t.elts) == 2 and all(isinstance(e, ast.Name) for e in t.elts) \
                    and t.elts[0].id != t.elts[1].id:
                pre = []
                e = self.arg(v, pre)
                return pre + ['(.unpack2 %d %d %s)' % (self.var(t.elts[0].id), self.var(t.elts[1].id), e)]
            if isinstance(t, ast.Attribute):
                root, path = _attr_chain(t)
                if not (isinstance(root, ast.Name) and (root.id == self.me or root.id in self.vars)):
                    self.fail('attribute assignment outside the fragment', n)
                pre = []
                e = self.arg(v, pre)
                return pre + ['(.setAttr %s %s %s)' % (self.expr(root), _strs(path), e)]
        if isinstance(n, ast.Expr) and isinstance(n.value, ast.Call) and isinstance(n.value.func, ast.Attribute) \
                and n.value.func.attr == 'extend' and isinstance(n.value.func.value, ast.Name) \
                and len(n.value.args) == 1 and not n.value.keywords:
            x = n.value.func.value.id
            if x not in self.fresh_lists:
                self.fail('extend of something that is not a local bound only by `[]` (or that may be aliased)', n)
            pre = []
            e = self.arg(n.value.args[0], pre)
            return pre + ['(.extend %d %s)' % (self.var(x), e)]
        if isinstance(n, ast.Expr) and isinstance(n.value, ast.Call):
            if self.is_pure_call(n.value):
                self.fail('pure call used as a statement', n)
            return self.call_stmt('none', n.value)
        if isinstance(n, ast.For) and not n.orelse and isinstance(n.target, ast.Name):
            pre = []
            it = self.arg(n.iter, pre)
            return pre + ['(.for1 %d %s %s)' % (self.var(n.target.id), it, self.loop(n.body))]
        if isinstance(n, ast.Try):
            if n.finalbody and not n.handlers and not n.orelse:
                return ['(.tryFinally %s %s)' % (self.block(n.body), self.block(n.finalbody))]
            if not n.finalbody and not n.orelse and len(n.handlers) == 1:
                h = n.handlers[0]
                if not isinstance(h.type, ast.Name) or h.type.id not in EXC_PAT or h.name:
                    self.fail('only `except KeyError:` is in the fragment', n)
                return ['(.tryExcept %s %s %s)' % (self.block(n.body), EXC_PAT[h.type.id], self.block(h.body))]
        self.fail('statement outside the fragment', n)

    def block(self, stmts):
        parts = []
        for s in stmts:
            parts += self.stmt(s)
        out = '.nil'
        for p in reversed(parts):
            out = '(.cons %s\n    %s)' % (p, out)
        return out


def translate(repo):
    trees = {}
    out = []
    for (rel, cname, mname, lname, marker) in FUNCS:
        if rel not in trees:
            trees[rel] = parse(repo, rel)
        cls = find_class(trees[rel], cname)
        out.append((cname, mname, lname, Method(find_func(cls, mname), lname, marker)))
    cs = find_class(trees[CACHE], 'CacheSet')
    got = [ast.unparse(s) for s in strip_doc(find_func(cs, '__init__').body)]
    if got != CACHESET_INIT:
        raise ExtractError('CacheSet.__init__ changed (Model/GetX.lean assumes %r): %r' % (CACHESET_INIT, got))
    return out


def extract(repo):
    methods = translate(repo)
    lines = [HEADER % 'pyget', 'import SqlObjVerif.Model.PyGet', '',
             'namespace SqlObjVerif.PyGet.Extracted', 'open SqlObjVerif.PyGet', '']
    for cname, name, ln, m in methods:
        for i in reversed(range(len(m.loops))):
            lines += ['/-- body of translated loop %d of `%s.%s` -/' % (i, cname, name),
                      'def %s_loop%d : Block :=\n  %s' % (ln, i, m.loops[i]), '']
        lines += ['/-- `%s.%s(%s)`%s, translated; locals: %s -/'
                  % (cname, name, ', '.join([m.me] + m.params),
                     ' (its tail)' if ln == 'destroyTail' else '',
                     ', '.join('%s=%d' % (v, i) for i, v in enumerate(m.vars)) or '-'),
                  'def %sProg : Block :=\n  %s' % (ln, m.body),
                  'def %s_params : List String := %s' % (ln, _strs(m.params)),
                  'def %s_nlocals : Nat := %d' % (ln, len(m.vars) - len(m.params)),
                  'def %s_defaults : List Val := [%s]' % (ln, ', '.join(m.defaults)), '']
    lines.append('end SqlObjVerif.PyGet.Extracted')
    return '\n'.join(lines) + '\n'
