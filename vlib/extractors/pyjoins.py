"""TRANSLATOR: the join accessors of sqlobject/joins.py -> PyJoins programs (C13).

`doSort`, `getID`, `SOJoin._applyOrderBy`, `SOMultipleJoin.performJoin`, `SORelatedJoin.performJoin/add/remove`,
`SOSingleJoin.performJoin`, `SOSQLMultipleJoin.performJoin`, `SOManyToMany.__get__`, `_ManyToManySelectWrapper.add/
remove/create`, `SOOneToMany.__get__` are translated statement by statement into the
deep embedding of `lean/SqlObjVerif/Model/PyJoins.lean`.  Anything outside the fragment raises ExtractError (the
framework then searches for a failing input and reports).  Conventions of the translation:
  * locals are numbered in order of first binding, the parameters (after `self`) first, then the targets of list
    comprehensions, then the temporaries the translator introduces; a behaviour-preserving rename of a local gives the
    same term; a new local, or a changed order of first bindings, renumbers;
  * a method call is a QUERY (an expression, assumed not to change anything) iff its name is in QUERIES; a call of a
    module-level function / class is an expression iff its dotted name is in PURE_FNS; `len`, `getattr` (two
    arguments), `isinstance`, `s.startswith(p)` are expression forms; every other call must be a statement of its own,
    the right-hand side of an assignment or the operand of `return` (`return r.m(..)` becomes `t = r.m(..); return t`):
    it goes through the interpreter's `call` / `callG` / `callV` parameter;
  * a list comprehension must be the right-hand side of an assignment or an argument of such a call (it is hoisted into a
    temporary in front of the call: everything else evaluated for the call is free of effects); it creates a list OBJECT;
  * `x.sort(key=…, reverse=…)` is accepted for a local `x` (it must hold a list object);
  * a nested `def f(p, …, q=<expr>)` becomes a closure value: its body (assignments, `if`, `return` only) may only
    mention its own parameters and locals and module-level names; the defaults are evaluated where the `def` stands;
  * string constants become lists of characters; `raise Cls(message)` keeps the class only;
  * `self.m(…)` for a method `m` of the same class that is itself translated (`create` calls `self.add`) goes through
    `call` like every other method call; the constructors of the two select wrappers (three plain attribute
    assignments) are compared with the text the interface assumption was written for;
  * `MinType.__lt__/__gt__/…` (the sort key for None) are compared with the text the interface assumption `lt` of
    Model/JoinsX.lean was written for; `SOJoin.orderBy` (the property) likewise.
"""
import ast
from . import ExtractError, parse, find_class, find_func, strip_doc, HEADER, lean_str

TARGET = 'PyJoins'

QUERIES = ('_SO_selectJoin', '_SO_intermediateJoin', 'get', 'select', 'count', '_dbNameToPythonName', 'orderBy',
           'instanceIDAttrToAttr')
PURE_FNS = ('getID', 'int', 'sqlbuilder.Field')
MODULE_CALLS = ('doSort',)
MODULES = ('sqlbuilder',)
GLOBALS = ('Min', '_ManyToManySelectWrapper', '_OneToManySelectWrapper')
BUILTIN_CLASSES = ('tuple', 'list', 'str')
VALUE_CALL_ATTRS = ('otherClass',)

MINTYPE = {
    '__lt__': ['if self is other:\n    return False', 'return True'],
    '__eq__': ['return self is other'],
    '__gt__': ['return False'],
    '__le__': ['return True'],
    '__ge__': ['if self is other:\n    return True', 'return False'],
}
ORDERBY_PROPERTY = ['if self._orderBy is NoDefault:\n    self._orderBy = self.otherClass.sqlmeta.defaultOrder',
                    'return self._orderBy']


def _strs(path):
    return '[' + ', '.join(lean_str(p) for p in path) + ']'


def lean_chars(s):
    out = []
    for ch in s:
        o = ord(ch)
        if ch == "'":
            out.append("'\\''")
        elif ch == '\\':
            out.append("'\\\\'")
        elif 32 <= o < 127:
            out.append("'%s'" % ch)
        else:
            out.append('(Char.ofNat %d)' % o)
    return '[' + ', '.join(out) + ']'


def _dotted(n):
    path = []
    while isinstance(n, ast.Attribute):
        path.append(n.attr)
        n = n.value
    if isinstance(n, ast.Name):
        return '.'.join([n.id] + list(reversed(path))), n.id
    return None, None


class Func(object):
    """one translated function (or, with `parent`, one nested def)"""

    def __init__(self, fn, method, parent=None, qual=None):
        self.fn = fn
        self.name = fn.name
        self.qual = qual or fn.name
        self.parent = parent
        a = fn.args
        if a.kwonlyargs or a.posonlyargs or a.vararg or fn.decorator_list:
            raise ExtractError('unexpected signature of %s' % self.qual)
        if a.kwarg and parent is not None:
            raise ExtractError('unexpected signature of %s' % self.qual)
        if parent is None and a.defaults:
            raise ExtractError('default values in the signature of %s' % self.qual)
        params = [x.arg for x in a.args]
        if method:
            if not params or params[0] != 'self':
                raise ExtractError('%s: first parameter is not self' % self.qual)
            params = params[1:]
        elif 'self' in params:
            raise ExtractError('%s: a function with a parameter self' % self.qual)
        self.method = method
        self.kwarg = a.kwarg.arg if a.kwarg else None
        self.params = params + ([self.kwarg] if self.kwarg else [])
        self.vars = list(self.params)
        self.compvars = []
        self.lams = []
        self.ntemps = 0
        body = strip_doc(fn.body)
        self._collect(body)
        self.nnamed = len(self.vars)
        self.body = self.pblock(body) if parent is not None else self.block(body)

    def fail(self, what, n=None):
        raise ExtractError('%s: %s%s' % (self.qual, what, (': ' + ast.unparse(n).split('\n')[0]) if n is not None else ''))

    # ---- names ---------------------------------------------------------------------------
    def _collect(self, stmts):
        m = self

        def bind(name):
            if name == 'self':
                m.fail('self is rebound')
            if name not in m.vars:
                m.vars.append(name)

        class V(ast.NodeVisitor):
            def visit_Assign(s, n):
                if len(n.targets) != 1:
                    m.fail('chained assignment', n)
                s.visit(n.value)
                t = n.targets[0]
                if isinstance(t, ast.Name):
                    bind(t.id)
                else:
                    m.fail('assignment target outside the fragment', n)

            def visit_AugAssign(s, n):
                m.fail('augmented assignment', n)

            visit_AnnAssign = visit_AugAssign

            def visit_For(s, n):
                m.fail('for statement', n)

            def visit_FunctionDef(s, n):
                if m.parent is not None:
                    m.fail('doubly nested function')
                bind(n.name)

            def visit_ListComp(s, n):
                if len(n.generators) != 1 or n.generators[0].is_async:
                    m.fail('comprehension outside the fragment', n)
                t = n.generators[0].target
                names = [t] if isinstance(t, ast.Name) else list(t.elts) if isinstance(t, ast.Tuple) else None
                if names is None or not all(isinstance(x, ast.Name) for x in names):
                    m.fail('comprehension target outside the fragment', n)
                for x in names:
                    if x.id not in m.compvars:
                        m.compvars.append(x.id)
                s.generic_visit(n)

            def visit_Lambda(s, n):
                m.fail('lambda')

            visit_AsyncFunctionDef = visit_ClassDef = visit_Lambda
            visit_GeneratorExp = visit_SetComp = visit_DictComp = visit_Lambda

            def visit_NamedExpr(s, n):
                m.fail('walrus')

            def visit_With(s, n):
                m.fail('with statement')

            def visit_Global(s, n):
                m.fail('global')

            visit_Nonlocal = visit_While = visit_Yield = visit_YieldFrom = visit_Await = visit_Global

            def visit_Delete(s, n):
                m.fail('del statement', n)

            def visit_ImportFrom(s, n):
                m.fail('import')

            visit_Import = visit_ImportFrom

        for st in stmts:
            V().visit(st)
        for c in self.compvars:
            if c in self.vars:
                self.fail('%s is both a local and the target of a comprehension' % c)
        self.vars += self.compvars

    def var(self, name):
        if name in self.vars:
            return self.vars.index(name)
        self.fail('name %s is not a parameter or local' % name)

    def temp(self):
        self.ntemps += 1
        self.vars.append('_t%d' % self.ntemps)
        return len(self.vars) - 1

    # ---- expressions ---------------------------------------------------------------------
    def const(self, n):
        if isinstance(n, ast.Constant):
            v = n.value
            if v is None:
                return '.none'
            if v is True or v is False:
                return '(.bool %s)' % ('true' if v else 'false')
            if isinstance(v, int) and v >= 0:
                return '(.int %d)' % v
            if isinstance(v, str):
                return '(.str %s)' % lean_chars(v)
        self.fail('constant outside the fragment', n)

    def exprs(self, ns):
        out = '.nil'
        for e in reversed([self.expr(a) for a in ns]):
            out = '(.cons %s %s)' % (e, out)
        return out

    def pure_fn_name(self, f):
        name, root = _dotted(f)
        if name is None or root in self.vars or root == 'self':
            return None
        return name if name in PURE_FNS else None

    def is_pure_call(self, n):
        if not isinstance(n, ast.Call):
            return False
        f = n.func
        if isinstance(f, ast.Name) and f.id in ('len', 'getattr', 'isinstance') and f.id not in self.vars:
            return True
        if self.pure_fn_name(f):
            return True
        return isinstance(f, ast.Attribute) and f.attr in QUERIES + ('startswith',)

    def class_name(self, n):
        cls, root = _dotted(n)
        if cls is None or root in self.vars or root == 'self':
            self.fail('isinstance with a computed class', n)
        if cls in BUILTIN_CLASSES or root in MODULES:
            return cls
        self.fail('isinstance with an unknown class', n)

    def expr(self, n):
        if isinstance(n, ast.Name):
            if n.id == 'self':
                if not self.method:
                    self.fail('self outside a method')
                return '.self'
            if n.id in self.vars:
                return '(.var %d)' % self.var(n.id)
            if n.id in GLOBALS:
                return '(.glob %s)' % lean_str(n.id)
            self.fail('unknown name %s' % n.id)
        if isinstance(n, ast.Constant):
            return '(.const %s)' % self.const(n)
        if isinstance(n, ast.Attribute):
            name, root = _dotted(n)
            if name is not None and root not in self.vars and root != 'self':
                self.fail('unknown global %s' % name)
            return '(.attr %s %s)' % (self.expr(n.value), lean_str(n.attr))
        if isinstance(n, ast.Dict) and len(n.keys) == 1 and n.keys[0] is not None:
            return '(.dict1 %s %s)' % (self.expr(n.keys[0]), self.expr(n.values[0]))
        if isinstance(n, ast.Subscript) and isinstance(n.ctx, ast.Load):
            s = n.slice
            if isinstance(s, ast.Slice):
                if s.upper is None and s.step is None and isinstance(s.lower, ast.Constant) \
                        and isinstance(s.lower.value, int) and not isinstance(s.lower.value, bool) and s.lower.value >= 0:
                    return '(.sliceFrom %s %d)' % (self.expr(n.value), s.lower.value)
                self.fail('slice outside the fragment', n)
            if isinstance(s, ast.Tuple):
                self.fail('subscript outside the fragment', n)
            return '(.index %s %s)' % (self.expr(n.value), self.expr(s))
        if isinstance(n, ast.BinOp) and isinstance(n.op, ast.Add):
            return '(.add %s %s)' % (self.expr(n.left), self.expr(n.right))
        if isinstance(n, ast.BinOp) and isinstance(n.op, ast.BitAnd):
            return '(.binop "&" %s %s)' % (self.expr(n.left), self.expr(n.right))
        if isinstance(n, ast.Compare):
            if len(n.ops) != 1:
                self.fail('chained comparison', n)
            op, rhs = n.ops[0], n.comparators[0]
            if isinstance(op, ast.Eq):
                return '(.eq %s %s)' % (self.expr(n.left), self.expr(rhs))
            if isinstance(op, (ast.Is, ast.IsNot)) and isinstance(rhs, ast.Constant) and \
                    (rhs.value is None or rhs.value is True or rhs.value is False):
                return '(.%s %s %s)' % ('isC' if isinstance(op, ast.Is) else 'isNotC', self.expr(n.left), self.const(rhs))
            if isinstance(op, (ast.Is, ast.IsNot)) and not isinstance(rhs, ast.Constant):
                return '(.%s %s %s)' % ('is' if isinstance(op, ast.Is) else 'isNot', self.expr(n.left), self.expr(rhs))
            self.fail('comparison outside the fragment', n)
        if isinstance(n, ast.Call):
            f = n.func
            if any(isinstance(a, ast.Starred) for a in n.args) or any(k.arg is None for k in n.keywords):
                self.fail('* / ** in an expression call', n)
            if isinstance(f, ast.Name) and f.id not in self.vars and f.id in ('len', 'getattr', 'isinstance'):
                if n.keywords:
                    self.fail('call outside the fragment', n)
                if f.id == 'len' and len(n.args) == 1:
                    return '(.len %s)' % self.expr(n.args[0])
                if f.id == 'getattr' and len(n.args) == 2:
                    return '(.getattr %s %s)' % (self.expr(n.args[0]), self.expr(n.args[1]))
                if f.id == 'isinstance' and len(n.args) == 2:
                    c = n.args[1]
                    clss = [self.class_name(x) for x in (c.elts if isinstance(c, ast.Tuple) else [c])]
                    return '(.isinstance %s %s)' % (self.expr(n.args[0]), _strs(clss))
                self.fail('call outside the fragment', n)
            pf = self.pure_fn_name(f)
            if pf:
                if n.keywords:
                    self.fail('keyword arguments of a module function', n)
                return '(.fn %s %s)' % (lean_str(pf), self.exprs(n.args))
            if isinstance(f, ast.Attribute) and f.attr == 'startswith' and len(n.args) == 1 and not n.keywords:
                return '(.startswith %s %s)' % (self.expr(f.value), self.expr(n.args[0]))
            if isinstance(f, ast.Attribute) and f.attr in QUERIES:
                return '(.query %s %s %s %s %s)' % (self.expr(f.value), lean_str(f.attr), self.exprs(n.args),
                                                    _strs([k.arg for k in n.keywords]),
                                                    self.exprs([k.value for k in n.keywords]))
            self.fail('a call that is not a query must be a statement of its own', n)
        self.fail('expression outside the fragment', n)

    def cond(self, n):
        if isinstance(n, ast.UnaryOp) and isinstance(n.op, ast.Not):
            return '(.not %s)' % self.cond(n.operand)
        if isinstance(n, ast.BoolOp):
            op = 'and' if isinstance(n.op, ast.And) else 'or'
            parts = [self.cond(v) for v in n.values]
            out = parts[-1]
            for p in reversed(parts[:-1]):
                out = '(.%s %s %s)' % (op, p, out)
            return out
        return '(.truthy %s)' % self.expr(n)

    # ---- statements ----------------------------------------------------------------------
    def comp_stmt(self, x, n):
        g = n.generators[0]
        t = g.target
        if isinstance(t, ast.Name):
            pat = '(.name %d)' % self.var(t.id)
        else:
            pat = '(.tuple [%s])' % ', '.join(str(self.var(e.id)) for e in t.elts)
        if g.ifs:
            c = self.cond(g.ifs[0] if len(g.ifs) == 1 else ast.BoolOp(op=ast.And(), values=list(g.ifs)))
        else:
            c = '(.truthy (.const (.bool true)))'
        return '(.comp %d %s %s %s %s)' % (x, self.expr(n.elt), pat, self.expr(g.iter), c)

    def call_args(self, args, pre):
        out = []
        for a in args:
            if isinstance(a, ast.ListComp):
                t = self.temp()
                pre.append(self.comp_stmt(t, a))
                out.append('(.var %d)' % t)
            else:
                out.append(self.expr(a))
        r = '.nil'
        for e in reversed(out):
            r = '(.cons %s %s)' % (e, r)
        return r

    def call_stmts(self, target, c):
        """an effectful call `[target =] c`; target: 'none' or '(some i)'; -> list of statements"""
        f = c.func
        pre = []
        if any(isinstance(a, ast.Starred) for a in c.args):
            self.fail('call with * outside the fragment', c)
        stars = [k for k in c.keywords if k.arg is None]
        kws = [k for k in c.keywords if k.arg is not None]
        if isinstance(f, ast.Name) and f.id in MODULE_CALLS and f.id not in self.vars:
            if c.keywords:
                self.fail('keyword arguments of a module function', c)
            return pre + ['(.callG %s %s %s)' % (target, lean_str(f.id), self.call_args(c.args, pre))]
        value_call = (isinstance(f, ast.Attribute) and f.attr in VALUE_CALL_ATTRS) or \
            (isinstance(f, ast.Name) and (f.id in self.vars or f.id in GLOBALS))
        if value_call:
            if kws:
                self.fail('keyword arguments in a call of a value', c)
            sk = 'none'
            if stars:
                if len(stars) != 1 or not isinstance(stars[0].value, ast.Name):
                    self.fail('** outside the fragment', c)
                sk = '(some %d)' % self.var(stars[0].value.id)
            args = self.call_args(c.args, pre)
            return pre + ['(.callV %s %s %s %s)' % (target, self.expr(f), args, sk)]
        if stars:
            self.fail('** in a method call', c)
        if isinstance(f, ast.Attribute):
            args = self.call_args(c.args, pre)
            return pre + ['(.call %s %s %s %s %s %s)' % (
                target, self.expr(f.value), lean_str(f.attr), args,
                _strs([k.arg for k in kws]), self.exprs([k.value for k in kws]))]
        self.fail('call outside the fragment', c)

    def nested(self, n):
        lam = Func(n, False, parent=self, qual='%s.%s' % (self.qual, n.name))
        a = n.args
        nd = len(a.defaults)
        free = set()
        for x in ast.walk(ast.Module(body=n.body, type_ignores=[])):
            if isinstance(x, ast.Name) and x.id not in lam.vars and x.id not in GLOBALS \
                    and x.id not in ('getattr', 'len', 'isinstance'):
                free.add(x.id)
        if free:
            self.fail('nested function %s uses names of the enclosing scope: %s' % (n.name, sorted(free)))
        fid = len(self.lams)
        self.lams.append(lam)
        return '(.defFn %d %d %s)' % (self.var(n.name), fid, self.exprs(a.defaults)), nd

    def stmt(self, n):
        """-> list of translated statements"""
        if isinstance(n, ast.Pass):
            return ['.pass']
        if isinstance(n, ast.Return):
            if n.value is None or (isinstance(n.value, ast.Constant) and n.value.value is None):
                return ['.retNone']
            if isinstance(n.value, ast.Call) and not self.is_pure_call(n.value):
                t = self.temp()
                return self.call_stmts('(some %d)' % t, n.value) + ['(.ret (.var %d))' % t]
            return ['(.ret %s)' % self.expr(n.value)]
        if isinstance(n, ast.Raise):
            if n.cause is None and isinstance(n.exc, ast.Call) and isinstance(n.exc.func, ast.Name) \
                    and n.exc.func.id not in self.vars and not n.exc.keywords:
                return ['(.raise %s)' % lean_str(n.exc.func.id)]
            self.fail('only `raise Class(message)` is in the fragment', n)
        if isinstance(n, ast.If):
            return ['(.ite %s %s %s)' % (self.cond(n.test), self.block(n.body), self.block(n.orelse))]
        if isinstance(n, ast.Try):
            if len(n.handlers) != 1 or n.orelse or n.finalbody or n.handlers[0].name is not None \
                    or not isinstance(n.handlers[0].type, ast.Name):
                self.fail('try statement outside the fragment', n)
            return ['(.tryExcept %s %s %s)' % (self.block(n.body), lean_str(n.handlers[0].type.id),
                                               self.block(n.handlers[0].body))]
        if isinstance(n, ast.FunctionDef):
            s, _ = self.nested(n)
            return [s]
        if isinstance(n, ast.Assign) and len(n.targets) == 1 and isinstance(n.targets[0], ast.Name):
            t, v = n.targets[0], n.value
            if isinstance(v, ast.ListComp):
                return [self.comp_stmt(self.var(t.id), v)]
            if isinstance(v, ast.Call) and not self.is_pure_call(v):
                return self.call_stmts('(some %d)' % self.var(t.id), v)
            return ['(.assign %d %s)' % (self.var(t.id), self.expr(v))]
        if isinstance(n, ast.Expr) and isinstance(n.value, ast.Call):
            c, f = n.value, n.value.func
            if isinstance(f, ast.Attribute) and f.attr == 'sort' and isinstance(f.value, ast.Name) and f.value.id in self.vars:
                kw = dict((k.arg, k.value) for k in c.keywords)
                if c.args or sorted(kw) != ['key', 'reverse']:
                    self.fail('sort outside the fragment (key= and reverse= expected)', n)
                return ['(.sortList %d %s %s)' % (self.var(f.value.id), self.expr(kw['key']), self.expr(kw['reverse']))]
            if isinstance(f, ast.Attribute) and isinstance(f.value, ast.Name) and f.value.id in self.vars and \
                    f.attr in ('append', 'extend', 'update', 'pop', 'clear', 'remove', 'insert', 'setdefault', 'reverse'):
                self.fail('mutation of a container outside the fragment', n)
            if self.is_pure_call(c):
                self.fail('query used as a statement', n)
            return self.call_stmts('none', c)
        self.fail('statement outside the fragment', n)

    def block(self, stmts):
        parts = []
        for s in stmts:
            parts += self.stmt(s)
        out = '.nil'
        for p in reversed(parts):
            out = '(.cons %s\n    %s)' % (p, out)
        return out

    # ---- bodies of nested functions ------------------------------------------------------
    def pstmt(self, n):
        if isinstance(n, ast.Return) and n.value is not None:
            return '(.ret %s)' % self.expr(n.value)
        if isinstance(n, ast.If):
            return '(.ite %s %s %s)' % (self.cond(n.test), self.pblock(n.body), self.pblock(n.orelse))
        if isinstance(n, ast.Assign) and len(n.targets) == 1 and isinstance(n.targets[0], ast.Name):
            return '(.assign %d %s)' % (self.var(n.targets[0].id), self.expr(n.value))
        self.fail('statement outside the fragment of nested functions', n)

    def pblock(self, stmts):
        out = '.nil'
        for p in reversed([self.pstmt(s) for s in stmts]):
            out = '(.cons %s\n    %s)' % (p, out)
        return out


WRAPPER_INIT = ['self.forObject = forObject', 'self.join = join', 'self.select = select']


def _check_text(what, fn, want):
    src = [ast.unparse(s) for s in strip_doc(fn.body)]
    if src != want:
        raise ExtractError('%s changed: %r' % (what, src))


def _module_func(tree, name):
    for s in tree.body:
        if isinstance(s, ast.FunctionDef) and s.name == name:
            return s
    raise ExtractError('function %s not found at module level' % name)


def _method(tree, cls, name):
    c = find_class(tree, cls)
    return find_func(c, name)


# (Lean name, class or None, function name)
FUNCS = [
    ('getID', None, 'getID'),
    ('doSort', None, 'doSort'),
    ('applyOrderBy', 'SOJoin', '_applyOrderBy'),
    ('multiplePerformJoin', 'SOMultipleJoin', 'performJoin'),
    ('relatedPerformJoin', 'SORelatedJoin', 'performJoin'),
    ('relatedAdd', 'SORelatedJoin', 'add'),
    ('relatedRemove', 'SORelatedJoin', 'remove'),
    ('singlePerformJoin', 'SOSingleJoin', 'performJoin'),
    ('sqlMultiplePerformJoin', 'SOSQLMultipleJoin', 'performJoin'),
    ('m2mGet', 'SOManyToMany', '__get__'),
    ('m2mAdd', '_ManyToManySelectWrapper', 'add'),
    ('m2mRemove', '_ManyToManySelectWrapper', 'remove'),
    ('m2mCreate', '_ManyToManySelectWrapper', 'create'),
    ('o2mGet', 'SOOneToMany', '__get__'),
]


def extract(repo):
    tree = parse(repo, 'sqlobject/joins.py')
    mt = find_class(tree, 'MinType')
    names = [s.name for s in mt.body if isinstance(s, ast.FunctionDef)]
    if sorted(names) != sorted(MINTYPE):
        raise ExtractError('MinType: methods changed: %r' % names)
    for k, want in MINTYPE.items():
        _check_text('MinType.' + k, find_func(mt, k), want)
    ob = _method(tree, 'SOJoin', 'orderBy')
    _check_text('SOJoin.orderBy', ob, ORDERBY_PROPERTY)
    for w in ('_ManyToManySelectWrapper', '_OneToManySelectWrapper'):
        init = _method(tree, w, '__init__')
        if [a.arg for a in init.args.args] != ['self', 'forObject', 'join', 'select']:
            raise ExtractError('%s.__init__: signature changed' % w)
        _check_text(w + '.__init__', init, WRAPPER_INIT)
    # the accessor classes define exactly the methods the translation and the interface know
    for cls, want in (('SOMultipleJoin', ['__init__', 'performJoin', '_dbNameToPythonName']),
                      ('SORelatedJoin', ['__init__', '_setOtherRelatedClass', 'hasIntermediateTable', 'performJoin', 'remove', 'add']),
                      ('SOSingleJoin', ['__init__', 'performJoin']),
                      ('SOSQLMultipleJoin', ['performJoin']),
                      ('_ManyToManySelectWrapper', ['__init__', '__getattr__', '__repr__', '__str__', '__iter__',
                                                    '__getitem__', 'add', 'remove', 'create']),
                      ('_OneToManySelectWrapper', ['__init__', '__getattr__', '__repr__', '__str__', '__iter__',
                                                   '__getitem__', 'create'])):
        got = [s.name for s in find_class(tree, cls).body if isinstance(s, ast.FunctionDef)]
        if got != want:
            raise ExtractError('%s: methods changed: %r' % (cls, got))
    funcs = []
    for lname, cls, fname in FUNCS:
        fn = _module_func(tree, fname) if cls is None else _method(tree, cls, fname)
        funcs.append((lname, cls, Func(fn, cls is not None, qual=(cls + '.' if cls else '') + fname)))
    lines = [HEADER % 'pyjoins', 'import SqlObjVerif.Model.PyJoins', '',
             'namespace SqlObjVerif.PyJoins.Extracted', 'open SqlObjVerif.PyJoins', '']
    for lname, cls, m in funcs:
        for i, lam in enumerate(m.lams):
            lines += ['/-- nested `def %s(%s)` of `%s`; locals: %s -/'
                      % (lam.name, ', '.join(lam.params), m.qual, ', '.join('%s=%d' % (v, j) for j, v in enumerate(lam.vars))),
                      'def %s_lam%d : Lam :=\n  ⟨%d, %s⟩' % (lname, i, len(lam.params), lam.body), '']
        lines += ['/-- `%s(%s)`, translated; locals: %s -/'
                  % (m.qual, ', '.join((['self'] if m.method else []) + [('**' + q) if q == m.kwarg else q for q in m.params]),
                     ', '.join('%s=%d' % (v, i) for i, v in enumerate(m.vars)) or '-'),
                  'def %sBody : Block :=\n  %s' % (lname, m.body),
                  'def %sProg : Prog := ⟨%sBody, [%s]⟩' % (lname, lname, ', '.join('%s_lam%d' % (lname, i) for i in range(len(m.lams)))),
                  'def %s_nargs : Nat := %d' % (lname, len(m.params)), '']
    lines.append('end SqlObjVerif.PyJoins.Extracted')
    return '\n'.join(lines) + '\n'
