"""TRANSLATOR: the literal pipeline of sqlobject -> PyLex blocks.

`converters.StringLikeConverter / IntConverter / BoolConverter / FloatConverter / NoneConverter / SequenceConverter /
DateTimeConverterMS / DateConverter / TimeConverterMS / DecimalConverter / sqlrepr / quote_str / unquote_str`,
`sqlbuilder._quote_like_special / STARTSWITH / ENDSWITH / CONTAINSSTRING / _LikeQuoted.__init__ / __radd__ / __add__ /
__sqlrepr__ / LIKE.__init__ / __sqlrepr__`, `main.SQLObject.__sqlrepr__` and `dbconnection.DBAPI.sqlrepr /
DBAPI._insertSQL / DBAPI._SO_update` are translated statement by statement into the deep embedding of
`lean/SqlObjVerif/Model/PyLex.lean`; the module constant `sqlStringReplace`, the `registerConverter(typ, func)` table
(Python 3 branch), the class attribute `LIKE.op`, the base classes and the `compat` aliases `string_type` /
`buffer_type` are emitted as data.  Anything outside the fragment raises ExtractError.  Conventions:
  * locals are numbered in order of first binding, the parameters (including `self`) first: a behaviour-preserving
    rename of a local gives the same term;
  * every top-level statement of a function becomes its own definition `<f>_s<k>` and the function is the block of
    these; the body of the n-th `for` loop (source order) is `<f>_for<n>`, the element expression of the n-th list
    comprehension `<f>_comp<n>`;
  * a called NAME is a local (a call of a value), `isinstance` with a class name, one of the builtins `repr` / `str` /
    `int` / `len`, or a module-level function / class of the translated set (the import statements of the module are checked:
    the name must be bound exactly once at module level, by the expected `from .converters import …` or by the
    `def` / `class` itself); `sqlbuilder.sqlrepr(..)` in main.py is the same function (import checked);
  * `x += e` is `x = x + e`, `x.a += e` is `x.a = x.a + e` (the values of the fragment are immutable);
  * `assert c, msg` is `assert c`, `raise E(msg)` is `raise E` (the message is not evaluated, see Model/PyLex.lean);
  * `x.append(e)` needs a local only ever bound to a fresh `[]` and otherwise only read by `sep.join(x)`;
    `self.a = e` needs a method that is `__init__` or whose every `return` returns `self`, and `self` is used nowhere
    but in attribute reads / writes and `return self` (no alias of the mutated object).
"""
import ast
from . import ExtractError, parse, find_class, find_func, strip_doc, HEADER, lean_str, lean_nat_list

TARGET = 'PyLex'

BUILTINS = ('repr', 'str', 'int', 'len')
CMP = {ast.Eq: '.eq', ast.NotEq: '.ne', ast.Lt: '.lt', ast.LtE: '.le', ast.Gt: '.gt', ast.GtE: '.ge',
       ast.In: '.isIn', ast.NotIn: '.notIn'}
EXC = {'ValueError': '.valueError', 'AssertionError': '.assertionError', 'AttributeError': '.attributeError',
       'TypeError': '.typeError'}

CONV = 'sqlobject/converters.py'
SQLB = 'sqlobject/sqlbuilder.py'
DBC = 'sqlobject/dbconnection.py'
MAIN = 'sqlobject/main.py'

# (file, class or None, python name, lean name)
FUNCTIONS = [
    (CONV, None, 'StringLikeConverter', 'StringLikeConverter'),
    (CONV, None, 'quote_str', 'quote_str'),
    (CONV, None, 'unquote_str', 'unquote_str'),
    (SQLB, None, '_quote_like_special', 'quote_like_special'),
    (SQLB, '_LikeQuoted', '__init__', 'LikeQuoted_init'),
    (SQLB, '_LikeQuoted', '__radd__', 'LikeQuoted_radd'),
    (SQLB, '_LikeQuoted', '__add__', 'LikeQuoted_add'),
    (SQLB, '_LikeQuoted', '__sqlrepr__', 'LikeQuoted_sqlrepr'),
    (SQLB, 'LIKE', '__init__', 'LIKE_init'),
    (SQLB, 'LIKE', '__sqlrepr__', 'LIKE_sqlrepr'),
    (SQLB, None, 'STARTSWITH', 'STARTSWITH'),
    (SQLB, None, 'ENDSWITH', 'ENDSWITH'),
    (SQLB, None, 'CONTAINSSTRING', 'CONTAINSSTRING'),
    (CONV, None, 'IntConverter', 'IntConverter'),
    (CONV, None, 'BoolConverter', 'BoolConverter'),
    (CONV, None, 'NoneConverter', 'NoneConverter'),
    (CONV, None, 'FloatConverter', 'FloatConverter'),
    (CONV, None, 'DecimalConverter', 'DecimalConverter'),
    (CONV, None, 'SequenceConverter', 'SequenceConverter'),
    (CONV, None, 'DateTimeConverterMS', 'DateTimeConverterMS'),
    (CONV, None, 'DateConverter', 'DateConverter'),
    (CONV, None, 'TimeConverterMS', 'TimeConverterMS'),
    (CONV, None, 'sqlrepr', 'sqlrepr'),
    (MAIN, 'SQLObject', '__sqlrepr__', 'SQLObject_sqlrepr'),
    (DBC, 'DBAPI', 'sqlrepr', 'conn_sqlrepr'),
    (DBC, 'DBAPI', '_insertSQL', 'insertSQL'),
    (DBC, 'DBAPI', '_SO_update', 'SO_update'),
    (CONV, None, 'TimedeltaConverter', 'TimedeltaConverter'),
    (SQLB, 'SQLExpression', 'startswith', 'Expr_startswith'),
    (SQLB, 'SQLExpression', 'endswith', 'Expr_endswith'),
    (SQLB, 'SQLExpression', 'contains', 'Expr_contains'),
    (SQLB, 'SQLObjectField', 'startswith', 'Field_startswith'),
    (SQLB, 'SQLObjectField', 'endswith', 'Field_endswith'),
    (SQLB, 'SQLObjectField', 'contains', 'Field_contains'),
]

# module-level names a translated function may call, per file: name -> where it must come from
#   ('def', None)            defined in this module (function or class), exactly once
#   ('from', module)         `from <module> import name`
#   ('registry', None)       `lookupConverter = converters.lookupConverter` (the registry, see _registry)
CALLABLE = {
    CONV: {'sqlrepr': ('def', None), 'lookupConverter': ('registry', None)},
    SQLB: {'sqlrepr': ('from', 'converters'), 'quote_str': ('from', 'converters'),
           'unquote_str': ('from', 'converters'), '_quote_like_special': ('def', None),
           'LIKE': ('def', None), '_LikeQuoted': ('def', None), 'STARTSWITH': ('def', None),
           'ENDSWITH': ('def', None), 'CONTAINSSTRING': ('def', None)},
    DBC: {'sqlrepr': ('from', 'converters')},
    MAIN: {},
}
# module aliases through which a function of another module may be called: file -> alias -> (module, allowed names)
MODCALL = {MAIN: {'sqlbuilder': ('sqlbuilder', ('sqlrepr',))}}
# module-level constants readable as values
CONSTS = {CONV: ('sqlStringReplace',)}
# class names usable in isinstance, per file: name -> how it is bound
ISINST = {
    CONV: {'array': ('from', 'array'), 'buffer_type': ('from', 'compat')},
    SQLB: {'SQLExpression': ('def', None), 'string_type': ('from', 'compat')},
    DBC: {}, MAIN: {},
}


def _top_bindings(tree, rel):
    """name -> list of (kind, module) for every module-level binding (the `if PY2:` bodies are skipped, their `else`
    taken; other conditionals are scanned on both sides)"""
    out = {}

    def add(name, kind, mod=None):
        out.setdefault(name, []).append((kind, mod))

    def scan(stmts):
        for st in stmts:
            if isinstance(st, ast.ImportFrom):
                for a in st.names:
                    add(a.asname or a.name, 'from' if (a.asname or a.name) == a.name else 'from-renamed',
                        (st.module or '').split('.')[-1] if st.module else a.name)
            elif isinstance(st, ast.Import):
                for a in st.names:
                    add((a.asname or a.name).split('.')[0], 'import', a.name)
            elif isinstance(st, (ast.FunctionDef, ast.ClassDef)):
                add(st.name, 'def')
            elif isinstance(st, (ast.Assign, ast.AugAssign, ast.AnnAssign)):
                ts = st.targets if isinstance(st, ast.Assign) else [st.target]
                for t in ts:
                    for n in ast.walk(t):
                        if isinstance(n, ast.Name) and isinstance(n.ctx, ast.Store):
                            add(n.id, 'assign', ast.unparse(st.value) if getattr(st, 'value', None) is not None else None)
            elif isinstance(st, ast.If):
                if ast.unparse(st.test) == 'PY2':
                    scan(st.orelse)
                elif ast.unparse(st.test) in ('sys.version_info[0] < 3',):
                    scan(st.orelse)
                else:
                    scan(st.body)
                    scan(st.orelse)
            elif isinstance(st, ast.Try):
                scan(st.body)
                for h in st.handlers:
                    scan(h.body)
                scan(st.orelse)
                scan(st.finalbody)
            elif isinstance(st, (ast.For, ast.While, ast.With)):
                scan(st.body)
    scan(tree.body)
    return out


def _check_binding(binds, rel, name, want):
    got = binds.get(name, [])
    kind, mod = want
    if kind == 'registry':
        if got != [('assign', 'converters.lookupConverter')]:
            raise ExtractError('%s: %s is bound as %r' % (rel, name, got))
        return
    if kind == 'def':
        if got != [('def', None)]:
            raise ExtractError('%s: %s is not defined exactly once at module level: %r' % (rel, name, got))
        return
    if kind == 'from':
        if got != [('from', mod)]:
            raise ExtractError('%s: %s is not imported exactly once from .%s: %r' % (rel, name, mod, got))
        return
    raise ExtractError('internal: %r' % (want,))


def _nats(s):
    return lean_nat_list(s)


class Fn(object):
    def __init__(self, fn, lean, where, rel, binds, is_method):
        self.fn, self.lean, self.where, self.rel, self.binds = fn, lean, where, rel, binds
        a = fn.args
        if a.kwonlyargs or a.posonlyargs or a.vararg or a.kwarg:
            self.fail('unexpected signature')
        if fn.decorator_list:
            self.fail('decorated')
        self.params = [x.arg for x in a.args]
        if is_method and self.params[:1] != ['self']:
            self.fail('first parameter is not self')
        self.is_method = is_method
        self.defaults = [ast.unparse(d) for d in a.defaults]
        self.vars = list(self.params)
        self.loops = []
        self.comps = []
        body = strip_doc(fn.body)
        self._collect(body)
        self._alias_checks(body)
        self.stmts = [(self.stmt(s), s) for s in body]

    def fail(self, what, n=None):
        raise ExtractError('%s: %s%s' % (self.where, what,
                                         (': ' + ast.unparse(n).split('\n')[0]) if n is not None else ''))

    # ---- names ---------------------------------------------------------------------------
    def _collect(self, stmts):
        m = self

        def bind(t):
            if isinstance(t, ast.Name):
                if t.id not in m.vars:
                    m.vars.append(t.id)
            elif isinstance(t, ast.Tuple):
                for e in t.elts:
                    if not isinstance(e, ast.Name):
                        m.fail('unpacking target outside the fragment', t)
                    bind(e)

        class V(ast.NodeVisitor):
            def visit_Assign(s, n):
                s.visit(n.value)
                for t in n.targets:
                    bind(t)

            def visit_AugAssign(s, n):
                s.visit(n.value)
                bind(n.target)

            def visit_For(s, n):
                s.visit(n.iter)
                bind(n.target)
                for b in n.body:
                    s.visit(b)

            def visit_ListComp(s, n):
                if len(n.generators) != 1 or n.generators[0].ifs or n.generators[0].is_async:
                    m.fail('comprehension outside the fragment', n)
                s.visit(n.generators[0].iter)
                bind(n.generators[0].target)
                s.visit(n.elt)

            def visit_NamedExpr(s, n):
                m.fail('walrus', n)

            def visit_SetComp(s, n):
                m.fail('comprehension outside the fragment', n)
            visit_DictComp = visit_GeneratorExp = visit_SetComp

            def visit_Lambda(s, n):
                m.fail('lambda', n)

            def visit_FunctionDef(s, n):
                m.fail('nested function', n)

            def visit_Global(s, n):
                m.fail('global', n)
            visit_Nonlocal = visit_Global

            def visit_ExceptHandler(s, n):
                if n.name is not None:
                    m.fail('except .. as name', n)
                for b in n.body:
                    s.visit(b)

        v = V()
        for st in stmts:
            v.visit(st)

    def _alias_checks(self, body):
        m = self
        mod = ast.Module(body=body, type_ignores=[])
        parents = {}
        for n in ast.walk(mod):
            for c in ast.iter_child_nodes(n):
                parents[c] = n
        append_locals, attr_locals = set(), set()
        for n in ast.walk(mod):
            if isinstance(n, ast.Call) and isinstance(n.func, ast.Attribute) and n.func.attr == 'append' \
                    and isinstance(n.func.value, ast.Name):
                append_locals.add(n.func.value.id)
            if isinstance(n, (ast.Assign, ast.AugAssign)):
                ts = n.targets if isinstance(n, ast.Assign) else [n.target]
                for t in ts:
                    if isinstance(t, ast.Attribute):
                        if not isinstance(t.value, ast.Name):
                            m.fail('attribute assignment outside the fragment', n)
                        attr_locals.add(t.value.id)
                    elif isinstance(t, ast.Subscript):
                        m.fail('item assignment', n)
        for x in append_locals:
            if x in m.params:
                m.fail('append to the parameter %s (the caller holds an alias)' % x)
            for n in ast.walk(mod):
                if isinstance(n, ast.Name) and n.id == x:
                    p = parents[n]
                    if isinstance(n.ctx, ast.Store):
                        ok = isinstance(p, ast.Assign) and len(p.targets) == 1 and isinstance(p.value, ast.List) \
                            and not p.value.elts
                    else:
                        ok = (isinstance(p, ast.Attribute) and p.attr == 'append' and isinstance(parents[p], ast.Call)
                              and parents[p].func is p and isinstance(parents[parents[p]], ast.Expr)) \
                            or (isinstance(p, ast.Call) and isinstance(p.func, ast.Attribute) and p.func.attr == 'join'
                                and isinstance(p.func.value, ast.Constant) and p.args == [n])
                    if not ok:
                        m.fail('the list local %s may have an alias' % x, p)
        for x in attr_locals:
            if not (m.is_method and x == 'self'):
                m.fail('attribute assignment to %s (only `self.a = e`)' % x)
            is_init = m.fn.name == '__init__'
            for n in ast.walk(mod):
                if isinstance(n, ast.Return):
                    if is_init:
                        if n.value is not None:
                            m.fail('__init__ returns a value', n)
                    elif not (isinstance(n.value, ast.Name) and n.value.id == 'self'):
                        m.fail('a method that assigns to self must `return self`', n)
                if isinstance(n, ast.Name) and n.id == 'self':
                    p = parents[n]
                    ok = (isinstance(p, ast.Attribute) and p.value is n) \
                        or (isinstance(p, ast.Return) and not is_init)
                    if not ok or isinstance(n.ctx, ast.Store):
                        m.fail('the mutated self may have an alias', p)
            if not is_init:
                last = body[-1] if body else None
                if not (isinstance(last, ast.Return) and isinstance(last.value, ast.Name) and last.value.id == 'self'):
                    m.fail('a method that assigns to self must end in `return self`')
        self.append_locals = append_locals

    def var(self, name, n=None):
        if name not in self.vars:
            self.fail('unknown name %s' % name, n)
        return self.vars.index(name)

    # ---- expressions ---------------------------------------------------------------------
    def exprs(self, es):
        out = '.nil'
        for e in reversed(es):
            out = '(.cons %s %s)' % (self.expr(e), out)
        return out

    def expr(self, n):
        m = self
        if isinstance(n, ast.Constant):
            v = n.value
            if v is None:
                return '.none'
            if v is True:
                return '.true'
            if v is False:
                return '.false'
            if isinstance(v, int):
                return '(.int %d)' % v
            if isinstance(v, str):
                return '(.str %s)' % _nats(v)
            m.fail('constant outside the fragment', n)
        if isinstance(n, ast.UnaryOp) and isinstance(n.op, ast.USub) and isinstance(n.operand, ast.Constant) \
                and isinstance(n.operand.value, int) and not isinstance(n.operand.value, bool):
            return '(.int (%d))' % (-n.operand.value)
        if isinstance(n, ast.Name):
            if n.id in m.vars:
                return '(.var %d)' % m.var(n.id)
            if n.id in CONSTS.get(m.rel, ()):
                got = m.binds.get(n.id, [])
                if len(got) != 1 or got[0][0] != 'assign':
                    m.fail('module constant %s is bound %d times' % (n.id, len(got)), n)
                return '(.glob %s)' % lean_str(n.id)
            m.fail('name outside the fragment', n)
        if isinstance(n, ast.Attribute):
            if isinstance(n.value, ast.Name) and n.value.id not in m.vars:
                m.fail('module attribute outside the fragment', n)
            return '(.attr %s %s)' % (m.expr(n.value), lean_str(n.attr))
        if isinstance(n, ast.Tuple):
            return '(.tuple %s)' % m.exprs(n.elts)
        if isinstance(n, ast.List):
            return '(.list %s)' % m.exprs(n.elts)
        if isinstance(n, ast.UnaryOp) and isinstance(n.op, ast.Not):
            return '(.not %s)' % m.expr(n.operand)
        if isinstance(n, ast.BoolOp):
            op = '.and' if isinstance(n.op, ast.And) else '.or'
            out = m.expr(n.values[-1])
            for v in reversed(n.values[:-1]):
                out = '(%s %s %s)' % (op, m.expr(v), out)
            return out
        if isinstance(n, ast.Compare):
            if len(n.ops) != 1:
                m.fail('chained comparison', n)
            op, a, b = n.ops[0], n.left, n.comparators[0]
            if isinstance(op, (ast.Is, ast.IsNot)):
                if not (isinstance(b, ast.Constant) and b.value is None):
                    m.fail('`is` against something other than None', n)
                return '(%s %s)' % ('.isNone' if isinstance(op, ast.Is) else '.isNotNone', m.expr(a))
            if type(op) not in CMP:
                m.fail('comparison outside the fragment', n)
            return '(.cmp %s %s %s)' % (CMP[type(op)], m.expr(a), m.expr(b))
        if isinstance(n, ast.BinOp):
            if isinstance(n.op, ast.Add):
                return '(.add %s %s)' % (m.expr(n.left), m.expr(n.right))
            if isinstance(n.op, ast.Mod):
                return '(.mod %s %s)' % (m.expr(n.left), m.expr(n.right))
            m.fail('operator outside the fragment', n)
        if isinstance(n, ast.Subscript):
            s = n.slice
            if isinstance(s, ast.Slice):
                if s.step is not None:
                    m.fail('slice with a step', n)
                if s.lower is not None and s.upper is not None:
                    return '(.slice %s %s %s)' % (m.expr(n.value), m.expr(s.lower), m.expr(s.upper))
                if s.lower is not None:
                    return '(.sliceFrom %s %s)' % (m.expr(n.value), m.expr(s.lower))
                if s.upper is not None:
                    return '(.sliceTo %s %s)' % (m.expr(n.value), m.expr(s.upper))
                m.fail('full slice', n)
            m.fail('indexing', n)
        if isinstance(n, ast.IfExp):
            m.fail('conditional expression', n)
        if isinstance(n, ast.ListComp):
            g = n.generators[0]
            k = len(m.comps)
            m.comps.append(None)
            elt = m.expr(n.elt)
            m.comps[k] = (elt, n)
            return '(.comp %s_comp%d %s %s)' % (m.lean, k, m.target(g.target, n), m.expr(g.iter))
        if isinstance(n, ast.Call):
            return m.call(n)
        m.fail('expression outside the fragment', n)

    def call(self, n):
        m = self
        f = n.func
        if any(isinstance(a, ast.Starred) for a in n.args) or any(k.arg is None for k in n.keywords):
            m.fail('star arguments', n)
        kws = n.keywords
        if isinstance(f, ast.Name):
            if f.id in m.vars:
                if kws:
                    m.fail('keyword arguments in a call of a value', n)
                return '(.callVal %s %s)' % (m.expr(f), m.exprs(n.args))
            if f.id == 'isinstance':
                if len(n.args) != 2 or kws:
                    m.fail('isinstance outside the fragment', n)
                c = n.args[1]
                if not isinstance(c, ast.Name) or c.id in m.vars:
                    m.fail('isinstance against something other than a class name', n)
                want = ISINST.get(m.rel, {}).get(c.id)
                if want is None:
                    m.fail('isinstance against an unknown class', n)
                _check_binding(m.binds, m.rel, c.id, want)
                return '(.isinstance %s %s)' % (m.expr(n.args[0]), lean_str(c.id))
            if f.id in BUILTINS:
                if f.id in m.binds:
                    m.fail('the builtin %s is rebound by the module' % f.id, n)
                if kws:
                    m.fail('keyword arguments of a builtin', n)
                return '(.call %s %s [] .nil)' % (lean_str(f.id), m.exprs(n.args))
            want = CALLABLE.get(m.rel, {}).get(f.id)
            if want is not None:
                _check_binding(m.binds, m.rel, f.id, want)
                return '(.call %s %s [%s] %s)' % (lean_str(f.id), m.exprs(n.args),
                                                  ', '.join(lean_str(k.arg) for k in kws),
                                                  m.exprs([k.value for k in kws]))
            m.fail('call of an unknown function', n)
        if isinstance(f, ast.Attribute):
            if isinstance(f.value, ast.Name) and f.value.id not in m.vars:
                al = MODCALL.get(m.rel, {}).get(f.value.id)
                if al is None or f.attr not in al[1] or kws:
                    m.fail('call through a module outside the fragment', n)
                got = m.binds.get(f.value.id, [])
                if got != [('from', f.value.id)]:
                    m.fail('%s is not `from . import %s`: %r' % (f.value.id, f.value.id, got), n)
                return '(.call %s %s [] .nil)' % (lean_str(f.attr), m.exprs(n.args))
            if kws:
                m.fail('keyword arguments of a method call', n)
            return '(.method %s %s %s)' % (m.expr(f.value), lean_str(f.attr), m.exprs(n.args))
        m.fail('call outside the fragment', n)

    # ---- statements ----------------------------------------------------------------------
    def target(self, t, n):
        if isinstance(t, ast.Name):
            return '(.one %d)' % self.var(t.id)
        if isinstance(t, ast.Tuple) and all(isinstance(e, ast.Name) for e in t.elts):
            return '(.tup [%s])' % ', '.join(str(self.var(e.id)) for e in t.elts)
        self.fail('assignment target outside the fragment', n)

    def block(self, stmts):
        out = '.nil'
        for s in reversed(stmts):
            out = '(.cons %s %s)' % (self.stmt(s), out)
        return out

    def exc(self, e, n):
        if isinstance(e, ast.Call):
            e = e.func
        if isinstance(e, ast.Name) and e.id in EXC:
            if e.id in self.binds:
                self.fail('%s is rebound by the module' % e.id, n)
            return EXC[e.id]
        self.fail('exception class outside the fragment', n)

    def stmt(self, n):
        m = self
        if isinstance(n, ast.Assign):
            if len(n.targets) != 1:
                m.fail('chained assignment', n)
            t = n.targets[0]
            if isinstance(t, ast.Attribute):
                return '(.setAttr %d %s %s)' % (m.var(t.value.id), lean_str(t.attr), m.expr(n.value))
            return '(.assign %s %s)' % (m.target(t, n), m.expr(n.value))
        if isinstance(n, ast.AugAssign):
            if not isinstance(n.op, ast.Add):
                m.fail('augmented assignment outside the fragment', n)
            if isinstance(n.target, ast.Name):
                x = m.var(n.target.id)
                return '(.assign (.one %d) (.add (.var %d) %s))' % (x, x, m.expr(n.value))
            if isinstance(n.target, ast.Attribute) and isinstance(n.target.value, ast.Name):
                x = m.var(n.target.value.id)
                a = lean_str(n.target.attr)
                return '(.setAttr %d %s (.add (.attr (.var %d) %s) %s))' % (x, a, x, a, m.expr(n.value))
            m.fail('augmented assignment outside the fragment', n)
        if isinstance(n, ast.If):
            return '(.ite %s %s %s)' % (m.expr(n.test), m.block(n.body), m.block(n.orelse))
        if isinstance(n, ast.For):
            if n.orelse:
                m.fail('for/else', n)
            for sub in ast.walk(n):
                if isinstance(sub, (ast.Break, ast.Continue)):
                    m.fail('break / continue', n)
            t = m.target(n.target, n)
            it = m.expr(n.iter)
            k = len(m.loops)
            m.loops.append(None)
            body = m.block(n.body)
            m.loops[k] = (body, n)
            return '(.for %s %s %s_for%d)' % (t, it, m.lean, k)
        if isinstance(n, ast.Assert):
            return '(.assert %s)' % m.expr(n.test)
        if isinstance(n, ast.Return):
            return '(.ret %s)' % (m.expr(n.value) if n.value is not None else '.none')
        if isinstance(n, ast.Expr):
            v = n.value
            if isinstance(v, ast.Call) and isinstance(v.func, ast.Attribute) and v.func.attr == 'append' \
                    and isinstance(v.func.value, ast.Name) and v.func.value.id in m.append_locals:
                if len(v.args) != 1 or v.keywords:
                    m.fail('append outside the fragment', n)
                return '(.append %d %s)' % (m.var(v.func.value.id), m.expr(v.args[0]))
            return '(.expr %s)' % m.expr(v)
        if isinstance(n, ast.Pass):
            return '.pass'
        if isinstance(n, ast.Raise):
            if n.exc is None or n.cause is not None:
                m.fail('raise outside the fragment', n)
            return '(.raise %s)' % m.exc(n.exc, n)
        if isinstance(n, ast.Try):
            if n.finalbody or len(n.handlers) != 1 or n.handlers[0].type is None:
                m.fail('try statement outside the fragment', n)
            h = n.handlers[0]
            return '(.tryExcept %s %s %s %s)' % (m.block(n.body), m.exc(h.type, n), m.block(h.body), m.block(n.orelse))
        m.fail('statement outside the fragment', n)


def _doc(n):
    line = ast.unparse(n).split('\n')[0]
    return line.replace('-/', '- /').replace('/-', '/ -')


def _val(n, what):
    """a literal constant as a Lean `Val`"""
    if isinstance(n, ast.Constant) and isinstance(n.value, str):
        return '.str %s' % _nats(n.value)
    if isinstance(n, ast.Constant) and n.value is None:
        return '.none'
    if isinstance(n, ast.Constant) and isinstance(n.value, int) and not isinstance(n.value, bool):
        return '.int %d' % n.value
    if isinstance(n, ast.Tuple):
        return '.tuple [%s]' % ', '.join(_val(e, what) for e in n.elts)
    if isinstance(n, ast.List):
        return '.list [%s]' % ', '.join(_val(e, what) for e in n.elts)
    raise ExtractError('%s: not a literal constant: %s' % (what, ast.unparse(n)))


def _registry(tree):
    """the registerConverter(typ, func) statements in effect on Python 3 without the optional third-party types, in
    execution order; the registry class itself is checked to be an exact-class dict lookup"""
    cls = find_class(tree, 'ConverterRegistry')
    reg = find_func(cls, 'registerConverter')
    want_reg = 'if type(typ) is ClassType:\n    self.klass[typ] = func\nelse:\n    self.basic[typ] = func'
    if ast.unparse(ast.Module(body=strip_doc(reg.body), type_ignores=[])) != want_reg:
        raise ExtractError('ConverterRegistry.registerConverter: unexpected body')
    look = None
    for st in cls.body:
        if isinstance(st, ast.If) and ast.unparse(st.test) == 'PY2':
            for s2 in st.orelse:
                if isinstance(s2, ast.FunctionDef) and s2.name == 'lookupConverter':
                    look = s2
    if look is None or [a.arg for a in look.args.args] != ['self', 'value', 'default'] \
            or [ast.unparse(d) for d in look.args.defaults] != ['None']:
        raise ExtractError('ConverterRegistry.lookupConverter (Python 3) not found')
    body = [s for s in look.body if not (isinstance(s, ast.Expr) and isinstance(s.value, ast.Constant))]
    if len(body) != 1 or ast.unparse(body[0]) != 'return self.klass.get(value.__class__, default)':
        raise ExtractError('ConverterRegistry.lookupConverter: unexpected body')
    ok = {'converters': 'ConverterRegistry()', 'registerConverter': 'converters.registerConverter',
          'lookupConverter': 'converters.lookupConverter', 'ClassType': None, 'NoneType': None}
    seen = {}
    for st in ast.walk(tree):
        if isinstance(st, ast.Assign) and len(st.targets) == 1 and isinstance(st.targets[0], ast.Name) \
                and st.targets[0].id in ok:
            seen.setdefault(st.targets[0].id, []).append(ast.unparse(st.value))
    for k in ('converters', 'registerConverter', 'lookupConverter'):
        if seen.get(k) != [ok[k]]:
            raise ExtractError('converters.py: %s = %r' % (k, seen.get(k)))
    if seen.get('ClassType') != ['type'] or seen.get('NoneType') != ['type(None)']:
        raise ExtractError('converters.py: ClassType / NoneType aliases changed')
    rows = []
    skipped = [0]

    def scan(stmts):
        for st in stmts:
            if isinstance(st, ast.Expr) and isinstance(st.value, ast.Call) \
                    and ast.unparse(st.value.func) == 'registerConverter':
                c = st.value
                if len(c.args) != 2 or c.keywords or not isinstance(c.args[1], ast.Name):
                    raise ExtractError('registerConverter call outside the fragment: %s' % ast.unparse(c))
                rows.append((ast.unparse(c.args[0]), c.args[1].id))
            elif isinstance(st, ast.If):
                t = ast.unparse(st.test)
                if t in ('PY2', 'sys.version_info[0] < 3'):
                    skipped[0] += sum(1 for b in st.body for sub in ast.walk(b) if isinstance(sub, ast.Call)
                                      and ast.unparse(sub.func) == 'registerConverter')
                    scan(st.orelse)
                elif t in ('NumericType', 'mxDateTimeType', 'pendulumDateTimeType', 'zopeDateTimeType'):
                    # optional third-party types: not modelled (absent in this environment)
                    skipped[0] += sum(1 for sub in ast.walk(st) if isinstance(sub, ast.Call)
                                      and ast.unparse(sub.func) == 'registerConverter')
                elif t == "hasattr(time, 'struct_time')":
                    scan(st.body)
                else:
                    for sub in ast.walk(st):
                        if isinstance(sub, ast.Call) and ast.unparse(sub.func) == 'registerConverter':
                            raise ExtractError('registerConverter under an unknown condition: %s' % t)
    scan(tree.body)
    total = sum(1 for sub in ast.walk(tree) if isinstance(sub, ast.Call) and ast.unparse(sub.func) == 'registerConverter')
    if total != len(rows) + skipped[0]:
        raise ExtractError('registerConverter is called somewhere else than at module level')
    return rows


def _compat(repo):
    tree = parse(repo, 'sqlobject/compat.py')
    out = {}
    for st in tree.body:
        if isinstance(st, ast.If) and ast.unparse(st.test) == 'PY2':
            for s2 in st.orelse:
                if isinstance(s2, ast.Assign) and len(s2.targets) == 1 and isinstance(s2.targets[0], ast.Name) \
                        and isinstance(s2.value, ast.Name):
                    out[s2.targets[0].id] = s2.value.id
    for k in ('string_type', 'buffer_type'):
        if k not in out:
            raise ExtractError('compat.py: %s not found in the Python 3 branch' % k)
    return out


def extract(repo):
    out = [HEADER % 'pylex', 'import SqlObjVerif.Model.PyLex', '',
           'namespace SqlObjVerif.PyLex.Extracted', 'open SqlObjVerif.PyLex', '']
    trees = {}
    names = []
    for rel, cname, pyname, lean in FUNCTIONS:
        if rel not in trees:
            tree = parse(repo, rel)
            trees[rel] = (tree, _top_bindings(tree, rel))
        tree, binds = trees[rel]
        if cname is None:
            if binds.get(pyname) != [('def', None)]:
                raise ExtractError('%s: %s is not defined exactly once at module level' % (rel, pyname))
            fn = find_func(tree, pyname)
            where = pyname
        else:
            if binds.get(cname) != [('def', None)]:
                raise ExtractError('%s: class %s is not defined exactly once at module level' % (rel, cname))
            cls = find_class(tree, cname)
            if sum(1 for s in cls.body if isinstance(s, ast.FunctionDef) and s.name == pyname) != 1:
                raise ExtractError('%s.%s is not defined exactly once' % (cname, pyname))
            fn = find_func(cls, pyname)
            where = '%s.%s' % (cname, pyname)
        f = Fn(fn, lean, where, rel, binds, cname is not None)
        names.append(lean)
        out.append('/-! ### `%s(%s)`: locals %s -/' % (
            where, ', '.join(f.params), ', '.join('%s=%d' % (v, i) for i, v in enumerate(f.vars))))
        out.append('')
        for k, (body, node) in enumerate(f.loops):
            out.append('/-- body of `%s` -/' % _doc(node))
            out.append('def %s_for%d : Block :=\n  %s' % (lean, k, body))
            out.append('')
        for k, (elt, node) in enumerate(f.comps):
            out.append('/-- element of `%s` -/' % _doc(node))
            out.append('def %s_comp%d : Expr :=\n  %s' % (lean, k, elt))
            out.append('')
        for k, (term, node) in enumerate(f.stmts):
            out.append('/-- `%s` -/' % _doc(node))
            out.append('def %s_s%d : Stmt :=\n  %s' % (lean, k, term))
            out.append('')
        blk = '.nil'
        for k in reversed(range(len(f.stmts))):
            blk = '(.cons %s_s%d %s)' % (lean, k, blk)
        out.append('def %s : Block :=\n  %s' % (lean, blk))
        out.append('')
        out.append('def %s_params : List String := [%s]' % (lean, ', '.join(lean_str(p) for p in f.params)))
        out.append('def %s_defaults : List String := [%s]' % (lean, ', '.join(lean_str(p) for p in f.defaults)))
        out.append('')
    # ---- data ------------------------------------------------------------------------------
    ctree, cbinds = trees[CONV]
    tbl = None
    for node in ctree.body:
        if isinstance(node, ast.Assign) and len(node.targets) == 1 \
                and ast.unparse(node.targets[0]) == 'sqlStringReplace':
            tbl = node.value
    if tbl is None:
        raise ExtractError('sqlStringReplace not found')
    out.append('/-- the module constant `converters.sqlStringReplace` -/')
    out.append('def sqlStringReplace : Val :=\n  %s' % _val(tbl, 'sqlStringReplace'))
    out.append('')
    rows = _registry(ctree)
    out.append('/-- `registerConverter(typ, func)` in execution order (Python 3; optional third-party types absent) -/')
    out.append('def registry : List (String × String) := [\n  %s]'
               % ',\n  '.join('(%s, %s)' % (lean_str(a), lean_str(b)) for a, b in rows))
    out.append('')
    stree, sbinds = trees[SQLB]
    like = find_class(stree, 'LIKE')
    attrs = []
    for st in like.body:
        if isinstance(st, ast.Assign) and len(st.targets) == 1 and isinstance(st.targets[0], ast.Name):
            attrs.append('(%s, %s)' % (lean_str(st.targets[0].id), _val(st.value, 'LIKE.' + st.targets[0].id)))
        elif isinstance(st, (ast.AnnAssign, ast.AugAssign)):
            raise ExtractError('LIKE: class statement outside the fragment')
    out.append('/-- class attributes of `LIKE` -/')
    out.append('def LIKE_attrs : List (String × Val) := [%s]' % ', '.join(attrs))
    out.append('')
    bases = []
    for rel, cname in ((SQLB, 'LIKE'), (SQLB, '_LikeQuoted'), (DBC, 'DBAPI')):
        cls = find_class(trees[rel][0], cname)
        if cls.keywords or cls.decorator_list:
            raise ExtractError('%s: metaclass / decorator' % cname)
        bases.append('(%s, [%s])' % (lean_str(cname), ', '.join(lean_str(ast.unparse(b)) for b in cls.bases)))
    # methods the classes must NOT override (they are taken from the base / absent)
    lq = find_class(stree, '_LikeQuoted')
    if any(isinstance(s, ast.FunctionDef) and s.name in ('__getattr__', '__getattribute__') for s in lq.body + like.body):
        raise ExtractError('_LikeQuoted / LIKE define __getattr__')
    out.append('/-- direct base classes -/')
    out.append('def bases : List (String × List String) := [%s]' % ', '.join(bases))
    out.append('')
    comp = _compat(repo)
    out.append('/-- `compat` aliases (Python 3 branch) -/')
    out.append('def aliases : List (String × String) := [%s]'
               % ', '.join('(%s, %s)' % (lean_str(k), lean_str(comp[k])) for k in ('string_type', 'buffer_type')))
    out.append('')
    out.append('end SqlObjVerif.PyLex.Extracted')
    return '\n'.join(out) + '\n'
