"""TRANSLATOR: the delivery path of row signals -> PyVersion blocks (`lean/SqlObjVerif/Model/PyVersion.lean`).

`sqlobject/events.py:listen` and `sqlobject/main.py:sqlmeta.send` are translated statement by statement with the
translator of `vlib/extractors/pyversion.py` (same conventions).  Also checked, as data: `events.send` IS
`pydispatch.dispatcher.send` (the module-level assignment `send = dispatcher.send`), `subclassClones = {}`, the imports
of `dispatcher` / `ref` in events.py and of `events` in main.py.  A call `<module>.f(…)` is translated as the method
call `f` on the module object (`.global "<module>"`), so that `*args` can be passed on.
Anything outside the fragment raises ExtractError.
"""
import ast
from . import ExtractError, parse, find_class, find_func, HEADER, lean_str
from . import pyversion

TARGET = 'PyEvents'
EVENTS = 'sqlobject/events.py'
MAIN = 'sqlobject/main.py'


class Func(pyversion.Func):
    LEAN = {}

    def call_stmt(self, target, c):
        f = c.func
        if isinstance(f, ast.Attribute) and isinstance(f.value, ast.Name) and f.value.id in self.imported \
                and self.is_global_name(f.value.id):
            # `<module>.f(args, *rest, k=v, **star)`: a method call on the module object
            rests = [a.value for a in c.args if isinstance(a, ast.Starred)]
            pos = [a for a in c.args if not isinstance(a, ast.Starred)]
            if len(rests) > 1 or (rests and not isinstance(c.args[-1], ast.Starred)):
                self.fail('* must be the last positional argument, once', c)
            stars = [k.value for k in c.keywords if k.arg is None]
            kws = [k for k in c.keywords if k.arg is not None]
            if len(stars) > 1 or (stars and c.keywords[-1].arg is not None):
                self.fail('** must be the last argument, once', c)
            for s in rests + stars:
                if not isinstance(s, ast.Name) or s.id not in self.vars:
                    self.fail('* / ** of something that is not a local', c)
            rest = '(some %s)' % self.expr(rests[0]) if rests else 'none'
            star = '(some %s)' % self.expr(stars[0]) if stars else 'none'
            pre, es = self.seq(pos + [k.value for k in kws])
            return pre, '(.call %s (.global %s) %s %s %s %s %s %s)' % (
                target, lean_str(f.value.id), lean_str(f.attr), self.exprs_of(es[:len(pos)]), rest,
                pyversion._strs([k.arg for k in kws]), self.exprs_of(es[len(pos):]), star)
        return pyversion.Func.call_stmt(self, target, c)

    def loop(self, body):
        self.fail('loop')


def module_names(tree):
    imported, defined, assigns = set(), set(), {}
    for s in tree.body:
        if isinstance(s, (ast.Import, ast.ImportFrom)):
            for a in s.names:
                imported.add(a.asname or a.name.split('.')[0])
        elif isinstance(s, (ast.FunctionDef, ast.ClassDef)):
            defined.add(s.name)
        elif isinstance(s, ast.Assign) and len(s.targets) == 1 and isinstance(s.targets[0], ast.Name):
            defined.add(s.targets[0].id)
            assigns[s.targets[0].id] = ast.unparse(s.value)
    return imported, defined, assigns


def extract(repo):
    ev = parse(repo, EVENTS)
    imported, defined, assigns = module_names(ev)
    stmts = [ast.unparse(s) for s in ev.body if isinstance(s, (ast.Import, ast.ImportFrom))]
    if 'from pydispatch import dispatcher' not in stmts or 'from weakref import ref' not in stmts:
        raise ExtractError('events.py no longer imports dispatcher / ref as expected')
    if assigns.get('send') != 'dispatcher.send':
        raise ExtractError('events.send is no longer dispatcher.send: %r' % assigns.get('send'))
    if assigns.get('subclassClones') != '{}':
        raise ExtractError('events.subclassClones is no longer {}')
    if sum(1 for s in ast.walk(ev) if isinstance(s, ast.FunctionDef) and s.name in ('listen', 'send')) != 1:
        raise ExtractError('events.py defines listen / send more than once')
    pyversion.LEAN_NAMES[(None, 'listen')] = 'listen'
    listen = Func(find_func(ev, 'listen'), None, imported, defined, set())
    mn = parse(repo, MAIN)
    mimported, mdefined, _ = module_names(mn)
    if 'from . import events' not in [ast.unparse(s) for s in mn.body if isinstance(s, ast.ImportFrom)]:
        raise ExtractError('main.py no longer imports events with `from . import events`')
    cls = find_class(mn, 'sqlmeta')
    if sum(1 for s in cls.body if isinstance(s, ast.FunctionDef) and s.name == 'send') != 1:
        raise ExtractError('sqlmeta defines send more than once')
    pyversion.LEAN_NAMES[('sqlmeta', 'send')] = 'send'
    send = Func(find_func(cls, 'send'), 'sqlmeta', mimported, mdefined, set())
    lines = [HEADER % 'pyevents', 'import SqlObjVerif.Model.PyVersion', '',
             'namespace SqlObjVerif.PyVer.ExtractedEvents', 'open SqlObjVerif.PyVer', '']
    for ln, where, m in (('listen', 'events.listen', listen), ('send', 'sqlmeta.send', send)):
        lines += ['/-- `%s(%s)`, translated; locals: %s -/'
                  % (where, ', '.join(([m.me] if m.me else []) + m.params),
                     ', '.join('%s=%d' % (v, i) for i, v in enumerate(m.vars)) or '-'),
                  'def %sProg : Block :=\n  %s' % (ln, m.body),
                  'def %s_nargs : Nat := %d' % (ln, len(m.params)),
                  'def %s_nlocals : Nat := %d' % (ln, len(m.vars) - len(m.params)),
                  'def %s_defaults : List Expr := [%s]' % (ln, ', '.join(m.defaults)), '']
    lines += ['/-- `events.send = %s` -/' % assigns['send'],
              'def eventsSendIs : String := %s' % lean_str(assigns['send']), '']
    lines.append('end SqlObjVerif.PyVer.ExtractedEvents')
    return '\n'.join(lines) + '\n'
