"""Link-table statements: the SQL templates of `DBAPI._SO_intermediateInsert/_SO_intermediateDelete/
_SO_intermediateJoin/_SO_selectJoin` (dbconnection.py), the way `SORelatedJoin.add/remove/performJoin` and
`SOMultipleJoin.performJoin` (joins.py) call them, and the two link-row DELETEs of `SQLObject.destroySelf`
(main.py), resolved to "which join column is compared with / set to which id".

The templates are matched as whole strings and the argument tuples as whole tuples; anything else is an
ExtractError (handled by the framework like a broken correspondence)."""
import ast
import re
from . import ExtractError, parse, find_class, find_func, strip_doc, lean_str, HEADER

TARGET = 'Graph'


def _single_call(func, what):
    """the function body is one statement `[return] self.query[All](<fmt> % (<args>))`; -> (fmt, [arg source])"""
    body = strip_doc(func.body)
    if len(body) != 1:
        raise ExtractError('%s: expected a single statement, found %d' % (what, len(body)))
    st = body[0]
    call = st.value if isinstance(st, (ast.Expr, ast.Return)) else None
    if not (isinstance(call, ast.Call) and ast.unparse(call.func) in ('self.query', 'self.queryAll') and len(call.args) == 1):
        raise ExtractError('%s: expected self.query(...)/self.queryAll(...): %s' % (what, ast.unparse(st)))
    v = call.args[0]
    if not (isinstance(v, ast.BinOp) and isinstance(v.op, ast.Mod) and isinstance(v.left, ast.Constant)
            and isinstance(v.left.value, str) and isinstance(v.right, ast.Tuple)):
        raise ExtractError('%s: expected "fmt" %% (args): %s' % (what, ast.unparse(v)))
    return v.left.value, [ast.unparse(a) for a in v.right.elts], ast.unparse(call.func)


def _params(func):
    return [a.arg for a in func.args.args][1:]


def _find_call(func, name, what):
    calls = [n for n in ast.walk(func) if isinstance(n, ast.Call) and isinstance(n.func, ast.Attribute) and n.func.attr == name]
    if len(calls) != 1:
        raise ExtractError('%s: expected exactly one call of %s' % (what, name))
    if calls[0].keywords:
        raise ExtractError('%s: keyword arguments in the call of %s' % (what, name))
    return [ast.unparse(a) for a in calls[0].args]


def _unrepr(s, what):
    m = re.fullmatch(r'self\.sqlrepr\((\w+)\)', s)
    if not m:
        raise ExtractError('%s: value is not passed through self.sqlrepr: %s' % (what, s))
    return m.group(1)


JCOL = {'self.joinColumn': '.joinColumn', 'self.otherColumn': '.otherColumn',
        'join.joinColumn': '.joinColumn', 'join.otherColumn': '.otherColumn'}
JVAL = {'getID(inst)': '.instId', 'getID(other)': '.otherId', 'inst.id': '.instId', 'self.id': '.instId'}
# the new-style ManyToMany wrapper: `self.join` is the SOManyToMany, `self.forObject` the owner, `obj` the other object
JCOL_W = {'self.join.joinColumn': '.joinColumn', 'self.join.otherColumn': '.otherColumn'}
JVAL_W = {'getID(self.forObject)': '.instId', 'getID(obj)': '.otherId'}


def _norm(src):
    return ' '.join(src.split())


def _query_of(func, what):
    """the `query = <expr>` assignment of a new-style accessor's __get__, and that the select is built from it"""
    qs = [n for n in ast.walk(func) if isinstance(n, ast.Assign) and ast.unparse(n.targets[0]) == 'query']
    if len(qs) != 1:
        raise ExtractError('%s: expected one `query = ...`' % what)
    sel = [n for n in ast.walk(func) if isinstance(n, ast.Assign) and ast.unparse(n.targets[0]) == 'select']
    if len(sel) != 1 or _norm(ast.unparse(sel[0].value)) != 'self.otherClass.select(query)':
        raise ExtractError('%s: select is not self.otherClass.select(query)' % what)
    return _norm(ast.unparse(qs[0].value))


def _resolve(bind, name, table, what):
    if name not in bind:
        raise ExtractError('%s: %s is not a parameter' % (what, name))
    src = bind[name]
    if src not in table:
        raise ExtractError('%s: unexpected argument %s for %s' % (what, src, name))
    return table[src]


def extract(repo):
    db = parse(repo, 'sqlobject/dbconnection.py')
    jn = parse(repo, 'sqlobject/joins.py')
    mn = parse(repo, 'sqlobject/main.py')
    dbapi = find_class(db, 'DBAPI')
    rel = find_class(jn, 'SORelatedJoin')
    mul = find_class(jn, 'SOMultipleJoin')

    # ---- INSERT
    f = find_func(dbapi, '_SO_intermediateInsert')
    fmt_ins, args, _ = _single_call(f, '_SO_intermediateInsert')
    if fmt_ins != 'INSERT INTO %s (%s, %s) VALUES (%s, %s)' or len(args) != 5:
        raise ExtractError('_SO_intermediateInsert: unknown template %r' % fmt_ins)
    call = _find_call(find_func(rel, 'add'), '_SO_intermediateInsert', 'SORelatedJoin.add')
    bind = dict(zip(_params(f), call))
    if _resolve(bind, args[0], {'self.intermediateTable': 't'}, 'add') != 't':
        raise ExtractError('add: table')
    add_pairs = [(_resolve(bind, args[1], JCOL, 'add'), _resolve(bind, _unrepr(args[3], 'add'), JVAL, 'add')),
                 (_resolve(bind, args[2], JCOL, 'add'), _resolve(bind, _unrepr(args[4], 'add'), JVAL, 'add'))]

    # ---- DELETE (remove)
    f = find_func(dbapi, '_SO_intermediateDelete')
    fmt_del, args, _ = _single_call(f, '_SO_intermediateDelete')
    if fmt_del != 'DELETE FROM %s WHERE %s = (%s) AND %s = (%s)' or len(args) != 5:
        raise ExtractError('_SO_intermediateDelete: unknown template %r' % fmt_del)
    call = _find_call(find_func(rel, 'remove'), '_SO_intermediateDelete', 'SORelatedJoin.remove')
    bind = dict(zip(_params(f), call))
    _resolve(bind, args[0], {'self.intermediateTable': 't'}, 'remove')
    rem_conds = [(_resolve(bind, args[1], JCOL, 'remove'), _resolve(bind, _unrepr(args[2], 'remove'), JVAL, 'remove')),
                 (_resolve(bind, args[3], JCOL, 'remove'), _resolve(bind, _unrepr(args[4], 'remove'), JVAL, 'remove'))]

    # ---- SELECT (RelatedJoin.performJoin)
    f = find_func(dbapi, '_SO_intermediateJoin')
    fmt_sel, args, q = _single_call(f, '_SO_intermediateJoin')
    if fmt_sel != 'SELECT %s FROM %s WHERE %s = (%s)' or len(args) != 4 or q != 'self.queryAll':
        raise ExtractError('_SO_intermediateJoin: unknown template %r' % fmt_sel)
    call = _find_call(find_func(rel, 'performJoin'), '_SO_intermediateJoin', 'SORelatedJoin.performJoin')
    bind = dict(zip(_params(f), call))
    _resolve(bind, args[1], {'self.intermediateTable': 't'}, 'performJoin')
    sel = (_resolve(bind, args[0], JCOL, 'performJoin'), _resolve(bind, args[2], JCOL, 'performJoin'),
           _resolve(bind, _unrepr(args[3], 'performJoin'), JVAL, 'performJoin'))

    # ---- SELECT (MultipleJoin.performJoin): SELECT id FROM other WHERE <joinColumn> = owner id
    f = find_func(dbapi, '_SO_selectJoin')
    fmt_msel, args, q = _single_call(f, '_SO_selectJoin')
    if fmt_msel != 'SELECT %s FROM %s WHERE %s = (%s)' or q != 'self.queryAll' or \
            args[:2] != ['soClass.sqlmeta.idName', 'soClass.sqlmeta.table']:
        raise ExtractError('_SO_selectJoin: unknown template %r %r' % (fmt_msel, args))
    call = _find_call(find_func(mul, 'performJoin'), '_SO_selectJoin', 'SOMultipleJoin.performJoin')
    bind = dict(zip(_params(f), call))
    if bind.get('soClass') != 'self.otherClass' or _resolve(bind, args[2], JCOL, 'MultipleJoin') != '.joinColumn' or \
            _resolve(bind, _unrepr(args[3], 'MultipleJoin'), JVAL, 'MultipleJoin') != '.instId':
        raise ExtractError('SOMultipleJoin.performJoin: unexpected call %r' % (call,))

    # ---- new-style ManyToMany / OneToMany (SOManyToMany.__get__, _ManyToManySelectWrapper.add/remove, SOOneToMany.__get__)
    m2m = find_class(jn, 'SOManyToMany')
    wrap = find_class(jn, '_ManyToManySelectWrapper')
    q = _query_of(find_func(m2m, '__get__'), 'SOManyToMany.__get__')
    want = ('(self.otherClass.q.id == sqlbuilder.Field(self.intermediateTable, self.otherColumn)) & '
            '(sqlbuilder.Field(self.intermediateTable, self.joinColumn) == obj.id)')
    if q != want:
        raise ExtractError('SOManyToMany.__get__: the accessor query is no longer "other.id = link.otherColumn AND '
                           'link.joinColumn = <owner id>": %s' % q)
    m2m_sel = ('.otherColumn', '.joinColumn', '.instId')
    f = find_func(dbapi, '_SO_intermediateInsert')
    call = _find_call(find_func(wrap, 'add'), '_SO_intermediateInsert', '_ManyToManySelectWrapper.add')
    bind = dict(zip(_params(f), call))
    if bind.get('table') != 'self.join.intermediateTable':
        raise ExtractError('_ManyToManySelectWrapper.add: table')
    m2m_add = [(_resolve(bind, 'firstColumn', JCOL_W, 'm2m add'), _resolve(bind, 'firstValue', JVAL_W, 'm2m add')),
               (_resolve(bind, 'secondColumn', JCOL_W, 'm2m add'), _resolve(bind, 'secondValue', JVAL_W, 'm2m add'))]
    f = find_func(dbapi, '_SO_intermediateDelete')
    call = _find_call(find_func(wrap, 'remove'), '_SO_intermediateDelete', '_ManyToManySelectWrapper.remove')
    bind = dict(zip(_params(f), call))
    if bind.get('table') != 'self.join.intermediateTable':
        raise ExtractError('_ManyToManySelectWrapper.remove: table')
    m2m_rem = [(_resolve(bind, 'firstColumn', JCOL_W, 'm2m remove'), _resolve(bind, 'firstValue', JVAL_W, 'm2m remove')),
               (_resolve(bind, 'secondColumn', JCOL_W, 'm2m remove'), _resolve(bind, 'secondValue', JVAL_W, 'm2m remove'))]
    q = _query_of(find_func(find_class(jn, 'SOOneToMany'), '__get__'), 'SOOneToMany.__get__')
    if q != 'sqlbuilder.Field(self.otherClass.sqlmeta.table, self.joinColumn) == obj.id':
        raise ExtractError('SOOneToMany.__get__: the accessor query is no longer "other.joinColumn = <owner id>": %s' % q)

    # ---- destroySelf: the two link-row DELETEs
    ds = find_func(find_class(mn, 'SQLObject'), 'destroySelf')
    found = []
    for loop in ast.walk(ds):
        if isinstance(loop, ast.For) and ast.unparse(loop.target) == 'join':
            for n in ast.walk(loop):
                if isinstance(n, ast.Assign) and ast.unparse(n.targets[0]) == 'q':
                    v = n.value
                    if not (isinstance(v, ast.BinOp) and isinstance(v.op, ast.Mod) and isinstance(v.left, ast.Constant)
                            and isinstance(v.right, ast.Tuple)):
                        raise ExtractError('destroySelf: unexpected q = %s' % ast.unparse(v))
                    found.append((ast.unparse(loop.iter), v.left.value, [ast.unparse(a) for a in v.right.elts],
                                  ast.unparse(loop)))
    if len(found) != 2:
        raise ExtractError('destroySelf: expected two link-table DELETEs, found %d' % len(found))
    cols = {}
    for it, fmt, args, src in found:
        if fmt != 'DELETE FROM %s WHERE %s=%d' or len(args) != 3 or args[0] != 'join.intermediateTable' or args[2] != 'self.id':
            raise ExtractError('destroySelf: unknown link DELETE %r %% %r' % (fmt, args))
        if args[1] not in JCOL:
            raise ExtractError('destroySelf: unknown column %s' % args[1])
        if it == 'klass.sqlmeta.joins':
            if 'isinstance(join, joins.SORelatedJoin)' not in src:
                raise ExtractError('destroySelf: own-join DELETE is no longer guarded by isinstance(join, SORelatedJoin)')
            cols['own'] = JCOL[args[1]]
        elif it == 'k.sqlmeta.joins':
            if 'join.otherClassName == klass.__name__' not in src:
                raise ExtractError('destroySelf: dependent-join DELETE is no longer guarded by otherClassName == klass.__name__')
            cols['dep'] = JCOL[args[1]]
        else:
            raise ExtractError('destroySelf: link DELETE in a loop over %s' % it)
    if set(cols) != {'own', 'dep'}:
        raise ExtractError('destroySelf: own/dependent link DELETEs not both found')

    def pairs(l):
        return '[' + ', '.join('(%s, %s)' % p for p in l) + ']'
    out = [HEADER % 'graph',
           'namespace SqlObjVerif.Extracted.Graph\n',
           '/-- a column of a link table, as the declaring join names it -/',
           'inductive JCol where\n  | joinColumn | otherColumn\nderiving DecidableEq, Repr\n',
           '/-- an id in a link-table statement: the accessor\'s owner (`inst` / `self`) or the other object -/',
           'inductive JVal where\n  | instId | otherId\nderiving DecidableEq, Repr\n',
           '/-- `SORelatedJoin.add` → `_SO_intermediateInsert`: column := value -/',
           'def insertTemplate : String := %s' % lean_str(fmt_ins),
           'def addPairs : List (JCol × JVal) := %s\n' % pairs(add_pairs),
           '/-- `SORelatedJoin.remove` → `_SO_intermediateDelete`: conjunction of column = value -/',
           'def deleteTemplate : String := %s' % lean_str(fmt_del),
           'def removeConds : List (JCol × JVal) := %s\n' % pairs(rem_conds),
           '/-- `SORelatedJoin.performJoin` → `_SO_intermediateJoin`: (selected column, WHERE column, value) -/',
           'def selectTemplate : String := %s' % lean_str(fmt_sel),
           'def joinSelect : JCol × JCol × JVal := (%s, %s, %s)\n' % sel,
           '/-- new-style `ManyToMany`: `SOManyToMany.__get__` (selected column, WHERE column, value) and the wrapper\'s add / remove -/',
           'def m2mSelect : JCol × JCol × JVal := (%s, %s, %s)' % m2m_sel,
           'def m2mAddPairs : List (JCol × JVal) := %s' % pairs(m2m_add),
           'def m2mRemoveConds : List (JCol × JVal) := %s\n' % pairs(m2m_rem),
           '/-- `destroySelf`: `DELETE FROM <intermediateTable> WHERE <column>=<self.id>` for the victim\'s own joins and',
           '    for the joins of dependent classes whose other side is the victim\'s class -/',
           'def destroyTemplate : String := %s' % lean_str(found[0][1]),
           'def ownDeleteCol : JCol := %s' % cols['own'],
           'def depDeleteCol : JCol := %s\n' % cols['dep'],
           'end SqlObjVerif.Extracted.Graph\n']
    return '\n'.join(out)
