"""TRANSLATOR: `InheritableSQLObject.set` and the generated setter of an inherited column -> PyInhSet blocks.

From sqlobject/inheritance/__init__.py:
  * `InheritableSQLObject.set(self, **kw)`                                  -> `inhSetProg`
  * the body of `setfunc(self, val)`, the function nested in `make_setfunc(cname)` nested in
    `InheritableSQLMeta.addColumn` (the setter `addColumn` installs on a child class for every column of its
    parent class)                                                           -> `setfuncProg`
statement by statement into the syntax of `lean/SqlObjVerif/Model/PyInhSet.lean`.  Anything outside the fragment
raises ExtractError.  Conventions:
  * `self` is `.self`; the other parameters (a `**kw` parameter counts as one) and the locals are numbered in order
    of first binding, parameters first (`.var i`): renaming a parameter / local gives the same term;
  * a parameter of the ENCLOSING function `make_setfunc` is a free variable of the closure: `.free i` (i-th
    parameter: `cname` = 0); any other name is a module global (`.glob "events"`, `.glob "SQLObject"`);
  * statements: `if`, `pass`, `x = e`, `self.sqlmeta.send(args…)`, `setattr(a, b, c)`, and the explicit class call
    `Cls.m(args…, k=v…, **star)` with `Cls` a module global;
  * expressions: names, None / True / False / string constants, `e.a`, `getattr(e, "name", dflt)`, `{k: v}`;
    conditions: `not`, `and`, `or`, truthiness.
Around the nested function the translator checks the shape it relies on: `make_setfunc` is `def setfunc …; return
setfunc`, and `addColumn` installs `make_setfunc(cname)` with `setattr(soClass, setterName(cname), setfunc)`.
"""
import ast
from . import ExtractError, parse, find_class, find_func, strip_doc, HEADER, lean_str
from .pyinherit import _attr_chain, _strs  # noqa: F401  (shared helpers)

TARGET = 'PyInhSet'
REL = 'sqlobject/inheritance/__init__.py'
CLASS = 'InheritableSQLObject'
META = 'InheritableSQLMeta'


class Fn(object):
    def __init__(self, fn, free=()):
        self.fn = fn
        self.name = fn.name
        a = fn.args
        if a.kwonlyargs or a.posonlyargs or a.vararg or a.defaults or not a.args or fn.decorator_list:
            raise ExtractError('unexpected signature of %s' % fn.name)
        if a.args[0].arg != 'self':
            raise ExtractError('%s: first parameter is %s' % (fn.name, a.args[0].arg))
        self.params = [x.arg for x in a.args[1:]]
        self.kwparam = a.kwarg.arg if a.kwarg else None
        if self.kwparam:
            self.params.append(self.kwparam)
        self.vars = list(self.params)
        self.free = list(free)
        body = strip_doc(fn.body)
        for st in body:
            for x in ast.walk(st):
                if isinstance(x, ast.Assign):
                    if len(x.targets) != 1 or not isinstance(x.targets[0], ast.Name):
                        self.fail('assignment outside the fragment', x)
                    nm = x.targets[0].id
                    if nm == 'self' or nm in self.free:
                        self.fail('%s is rebound' % nm)
                    if nm not in self.vars:
                        self.vars.append(nm)
                elif isinstance(x, (ast.FunctionDef, ast.Lambda, ast.For, ast.While, ast.Try, ast.With, ast.Return,
                                    ast.Raise, ast.AugAssign, ast.AnnAssign, ast.Delete, ast.Global, ast.Nonlocal,
                                    ast.ListComp, ast.GeneratorExp, ast.DictComp, ast.SetComp, ast.NamedExpr,
                                    ast.Yield, ast.YieldFrom, ast.Await, ast.Import, ast.ImportFrom, ast.Starred)):
                    self.fail('%s is outside the fragment' % type(x).__name__, x)
        self.body = self.block(body)

    def fail(self, what, n=None):
        raise ExtractError('%s: %s%s' % (self.name, what,
                                         (': ' + ast.unparse(n).split('\n')[0]) if n is not None else ''))

    def expr(self, n):
        if isinstance(n, ast.Name):
            if n.id == 'self':
                return '.self'
            if n.id in self.vars:
                return '(.var %d)' % self.vars.index(n.id)
            if n.id in self.free:
                return '(.free %d)' % self.free.index(n.id)
            return '(.glob %s)' % lean_str(n.id)
        if isinstance(n, ast.Constant):
            if n.value is None:
                return '.none'
            if n.value is True:
                return '.true'
            if n.value is False:
                return '.false'
            if isinstance(n.value, str):
                return '(.str %s)' % lean_str(n.value)
            self.fail('constant outside the fragment', n)
        if isinstance(n, ast.Attribute):
            return '(.attr %s %s)' % (self.expr(n.value), lean_str(n.attr))
        if isinstance(n, ast.Call) and isinstance(n.func, ast.Name) and n.func.id == 'getattr' and len(n.args) == 3 \
                and not n.keywords and isinstance(n.args[1], ast.Constant) and isinstance(n.args[1].value, str) \
                and 'getattr' not in self.vars:
            return '(.getattr3 %s %s %s)' % (self.expr(n.args[0]), lean_str(n.args[1].value), self.expr(n.args[2]))
        if isinstance(n, ast.Dict) and len(n.keys) == 1 and n.keys[0] is not None:
            return '(.dict1 %s %s)' % (self.expr(n.keys[0]), self.expr(n.values[0]))
        self.fail('expression outside the fragment', n)

    def exprs(self, ns):
        return '[' + ', '.join(self.expr(a) for a in ns) + ']'

    def cond(self, n):
        if isinstance(n, ast.UnaryOp) and isinstance(n.op, ast.Not):
            return '(.not %s)' % self.cond(n.operand)
        if isinstance(n, ast.BoolOp):
            op = 'and' if isinstance(n.op, ast.And) else 'or'
            parts = [self.cond(v) for v in n.values]
            out = parts[-1]
            for p in reversed(parts[:-1]):
                out = '(.%s %s %s)' % (op, p, out)
            return out
        if isinstance(n, (ast.Compare, ast.Call)) and not (
                isinstance(n, ast.Call) and isinstance(n.func, ast.Name) and n.func.id == 'getattr'):
            self.fail('condition outside the fragment', n)
        return '(.truthy %s)' % self.expr(n)

    def stmt(self, n):
        if isinstance(n, ast.Pass):
            return '.pass'
        if isinstance(n, ast.If):
            return '(.ite %s %s %s)' % (self.cond(n.test), self.block(n.body), self.block(n.orelse))
        if isinstance(n, ast.Assign):
            return '(.assign %d %s)' % (self.vars.index(n.targets[0].id), self.expr(n.value))
        if isinstance(n, ast.Expr) and isinstance(n.value, ast.Call):
            c, f = n.value, n.value.func
            if ast.unparse(f) == 'self.sqlmeta.send' and not c.keywords:
                return '(.send %s)' % self.exprs(c.args)
            if isinstance(f, ast.Name) and f.id == 'setattr' and len(c.args) == 3 and not c.keywords \
                    and 'setattr' not in self.vars:
                return '(.setattr %s %s %s)' % tuple(self.expr(a) for a in c.args)
            if isinstance(f, ast.Attribute) and isinstance(f.value, ast.Name) and f.value.id != 'self' \
                    and f.value.id not in self.vars and f.value.id not in self.free:
                stars = [k.value for k in c.keywords if k.arg is None]
                kws = [k for k in c.keywords if k.arg is not None]
                if len(stars) > 1 or (stars and c.keywords[-1].arg is not None):
                    self.fail('** must be the last argument, once', c)
                star = '(some %s)' % self.expr(stars[0]) if stars else 'none'
                return '(.classCall %s %s %s %s %s %s)' % (lean_str(f.value.id), lean_str(f.attr), self.exprs(c.args),
                                                          _strs([k.arg for k in kws]),
                                                          self.exprs([k.value for k in kws]), star)
        self.fail('statement outside the fragment', n)

    def block(self, stmts):
        out = '.nil'
        for p in reversed([self.stmt(s) for s in stmts]):
            out = '(.cons %s\n    %s)' % (p, out)
        return out


def _find_setfunc(tree):
    meta = find_class(tree, META)
    add = find_func(meta, 'addColumn')
    makers = [x for x in ast.walk(add) if isinstance(x, ast.FunctionDef) and x.name == 'make_setfunc']
    if len(makers) != 1:
        raise ExtractError('addColumn: %d definitions of make_setfunc' % len(makers))
    mk = makers[0]
    a = mk.args
    if a.kwonlyargs or a.posonlyargs or a.vararg or a.kwarg or a.defaults or len(a.args) != 1 or mk.decorator_list:
        raise ExtractError('unexpected signature of make_setfunc')
    body = strip_doc(mk.body)
    if len(body) != 2 or not (isinstance(body[0], ast.FunctionDef) and body[0].name == 'setfunc') \
            or ast.unparse(body[1]) != 'return setfunc':
        raise ExtractError('make_setfunc is no longer `def setfunc …; return setfunc`')
    cname = a.args[0].arg
    # how addColumn installs it: the closure over the attribute name X becomes the setter of that very name
    installs = [ast.unparse(s) for s in ast.walk(add) if isinstance(s, (ast.Assign, ast.Expr))]
    made = [s.value.args[0].id for s in ast.walk(add)
            if isinstance(s, ast.Assign) and ast.unparse(s.targets[0]) == 'setfunc' and isinstance(s.value, ast.Call)
            and ast.unparse(s.value.func) == 'make_setfunc' and len(s.value.args) == 1 and not s.value.keywords
            and isinstance(s.value.args[0], ast.Name)]
    if len(made) != 1 or 'setattr(soClass, setterName(%s), setfunc)' % made[0] not in installs:
        raise ExtractError('addColumn no longer installs make_setfunc(X) as the setter of X')
    return body[0], [cname]


def translate(repo):
    tree = parse(repo, REL)
    cls = find_class(tree, CLASS)
    for s in cls.body:
        if isinstance(s, ast.FunctionDef) and s.name in ('__setattr__', '__getattr__', '__getattribute__', '__new__',
                                                         '__init__'):
            raise ExtractError('%s defines %s' % (CLASS, s.name))
    if [ast.unparse(b) for b in cls.bases] != ['SQLObject']:
        raise ExtractError('%s no longer derives from SQLObject alone' % CLASS)
    fset = Fn(find_func(cls, 'set'))
    if fset.params != [fset.kwparam] or fset.kwparam is None:
        raise ExtractError('set: signature is no longer (self, **kw)')
    sf, free = _find_setfunc(tree)
    fsf = Fn(sf, free)
    if len(fsf.params) != 1 or fsf.kwparam:
        raise ExtractError('setfunc: signature is no longer (self, val)')
    return fset, fsf


def extract(repo):
    fset, fsf = translate(repo)
    lines = [HEADER % 'pyinhset', 'import SqlObjVerif.Model.PyInhSet', '',
             'namespace SqlObjVerif.PyInhSet.Extracted', 'open SqlObjVerif.PyInhSet', '']
    for (ln, title, f) in (('inhSet', '%s.set(self, **%s)' % (CLASS, fset.kwparam), fset),
                           ('setfunc', '%s.addColumn / make_setfunc(%s) / setfunc(self, %s)'
                            % (META, ', '.join(fsf.free), ', '.join(fsf.params)), fsf)):
        lines += ['/-- `%s`, translated; locals: %s; free: %s -/'
                  % (title, ', '.join('%s=%d' % (v, i) for i, v in enumerate(f.vars)) or '-',
                     ', '.join('%s=%d' % (v, i) for i, v in enumerate(f.free)) or '-'),
                  'def %sProg : Block :=\n  %s' % (ln, f.body),
                  'def %s_nlocals : Nat := %d' % (ln, len(f.vars)), '']
    lines.append('end SqlObjVerif.PyInhSet.Extracted')
    return '\n'.join(lines) + '\n'
