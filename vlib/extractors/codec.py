"""C01: the data-driven parts of the value codecs.

From sqlobject/converters.py: the `%`-format strings (and their argument attributes) of the
date/time converters registered for datetime.datetime / date / time, BoolConverter's non-postgres
literals, NoneConverter's literal, the sqlite branch of StringLikeConverter (the replace pair and
the quote wrapper).
From sqlobject/col.py: the strptime formats of DateTimeCol / DateCol / TimeCol, the SQLite column
type of every column kind, the isinstance tuples of DateTimeValidator.{from,to}_python.
From sqlobject/sqlite/sqliteconnection.py: which base64 functions are the binary encode / decode.
"""
import ast
from . import ExtractError, parse, find_class, find_func, strip_doc, lean_nat_list, HEADER

TARGET = 'Codec'

FIELDS = {'year': '.year', 'month': '.month', 'day': '.day', 'hour': '.hour', 'minute': '.minute',
          'second': '.second', 'microsecond': '.microsecond'}


def _module_func(tree, name):
    for node in tree.body:
        if isinstance(node, ast.FunctionDef) and node.name == name:
            return node
    raise ExtractError('function %s not found' % name)


def _registered(tree, typ):
    """name of the converter function registered last for `typ` at module level"""
    found = None
    for node in tree.body:
        if isinstance(node, ast.Expr) and isinstance(node.value, ast.Call) \
                and ast.unparse(node.value.func) == 'registerConverter' and len(node.value.args) == 2 \
                and ast.unparse(node.value.args[0]) == typ:
            found = ast.unparse(node.value.args[1])
    if found is None:
        raise ExtractError('no converter registered for %s' % typ)
    return found


def _fmt_pieces(fmt):
    out = []
    i = 0
    n = 0
    while i < len(fmt):
        ch = fmt[i]
        if ch != '%':
            out.append('.lit %d' % ord(ch))
            i += 1
            continue
        j = i + 1
        while j < len(fmt) and fmt[j].isdigit():
            j += 1
        if j >= len(fmt) or fmt[j] != 'd':
            raise ExtractError('unsupported conversion in %r at %d' % (fmt, i))
        spec = fmt[i + 1:j]
        if spec == '':
            w = 0
        elif spec[0] == '0' and spec[1:].isdigit():
            w = int(spec[1:])
        else:
            raise ExtractError('unsupported (space-padded) conversion %%%sd in %r' % (spec, fmt))
        out.append('.pad %d' % w)
        n += 1
        i = j + 1
    return out, n


def _conv(tree, fname):
    fn = _module_func(tree, fname)
    body = strip_doc(fn.body)
    if len(body) != 1 or not isinstance(body[0], ast.Return):
        raise ExtractError('%s: expected a single return' % fname)
    v = body[0].value
    if not (isinstance(v, ast.BinOp) and isinstance(v.op, ast.Mod) and isinstance(v.left, ast.Constant)
            and isinstance(v.left.value, str) and isinstance(v.right, ast.Tuple)):
        raise ExtractError('%s: expected "fmt" %% (attrs)' % fname)
    pieces, n = _fmt_pieces(v.left.value)
    args = []
    for a in v.right.elts:
        if not (isinstance(a, ast.Attribute) and ast.unparse(a.value) == 'value' and a.attr in FIELDS):
            raise ExtractError('%s: unexpected argument %s' % (fname, ast.unparse(a)))
        args.append(FIELDS[a.attr])
    if len(args) != n:
        raise ExtractError('%s: %d conversions for %d arguments' % (fname, n, len(args)))
    return '⟨[%s], [%s]⟩' % (', '.join(pieces), ', '.join(args))


def _bool_literals(tree):
    fn = _module_func(tree, 'BoolConverter')
    body = strip_doc(fn.body)
    if not (len(body) == 1 and isinstance(body[0], ast.If) and ast.unparse(body[0].test) == "db == 'postgres'"):
        raise ExtractError('BoolConverter: unexpected shape')
    other = body[0].orelse
    if not (len(other) == 1 and isinstance(other[0], ast.If) and ast.unparse(other[0].test) == 'value'):
        raise ExtractError('BoolConverter: unexpected else branch')

    def ret(stmts):
        if len(stmts) == 1 and isinstance(stmts[0], ast.Return) and isinstance(stmts[0].value, ast.Constant) \
                and isinstance(stmts[0].value.value, str):
            return stmts[0].value.value
        raise ExtractError('BoolConverter: expected a literal return')
    return ret(other[0].body), ret(other[0].orelse)


def _const_return(tree, fname):
    fn = _module_func(tree, fname)
    body = strip_doc(fn.body)
    if len(body) == 1 and isinstance(body[0], ast.Return) and isinstance(body[0].value, ast.Constant) \
            and isinstance(body[0].value.value, str):
        return body[0].value.value
    raise ExtractError('%s: expected a literal return' % fname)


def _string_sqlite(tree):
    """(orig, repl) of the replace in the branch of StringLikeConverter that names 'sqlite', and
    the final wrapper format."""
    fn = _module_func(tree, 'StringLikeConverter')
    pair = None
    for node in ast.walk(fn):
        if isinstance(node, ast.If):
            cur = node
            while True:
                if "'sqlite'" in ast.unparse(cur.test):
                    if not (len(cur.body) == 1 and isinstance(cur.body[0], ast.Assign)):
                        raise ExtractError('StringLikeConverter: sqlite branch is not a single assignment')
                    call = cur.body[0].value
                    if not (isinstance(call, ast.Call) and ast.unparse(call.func) == 'value.replace'
                            and len(call.args) == 2 and all(isinstance(a, ast.Constant) for a in call.args)):
                        raise ExtractError('StringLikeConverter: sqlite branch is not value.replace(a, b)')
                    pair = (call.args[0].value, call.args[1].value)
                    break
                if len(cur.orelse) == 1 and isinstance(cur.orelse[0], ast.If):
                    cur = cur.orelse[0]
                else:
                    break
            if pair:
                break
    if pair is None:
        raise ExtractError('StringLikeConverter: no sqlite branch found')
    last = strip_doc(fn.body)[-1]
    if not (isinstance(last, ast.Return) and isinstance(last.value, ast.BinOp)
            and isinstance(last.value.left, ast.Constant) and ast.unparse(last.value.right) == 'value'):
        raise ExtractError('StringLikeConverter: unexpected final return')
    wrap = last.value.left.value
    if wrap.count('%s') != 1:
        raise ExtractError('StringLikeConverter: unexpected wrapper %r' % wrap)
    pre, post = wrap.split('%s')
    if len(pair[0]) != 1:
        raise ExtractError('StringLikeConverter: sqlite replace of a multi-character string')
    return pair, pre, post


def _class_attr(cls, name):
    for node in cls.body:
        if isinstance(node, ast.Assign) and len(node.targets) == 1 and ast.unparse(node.targets[0]) == name \
                and isinstance(node.value, ast.Constant) and isinstance(node.value.value, str):
            return node.value.value
    raise ExtractError('%s.%s is not a string constant' % (cls.name, name))


SDIR = {'Y': '.Y', 'm': '.m', 'd': '.d', 'H': '.H', 'M': '.M', 'S': '.S', 'f': '.f'}


def _strp_pieces(fmt):
    out = []
    i = 0
    while i < len(fmt):
        if fmt[i] == '%':
            if i + 1 >= len(fmt) or fmt[i + 1] not in SDIR:
                raise ExtractError('unsupported strptime directive in %r' % fmt)
            out.append(SDIR[fmt[i + 1]])
            i += 2
        else:
            out.append('.lit %d' % ord(fmt[i]))
            i += 1
    return '[%s]' % ', '.join(out)


def _ret_str(cls, meth):
    """string constant returned by a one-line method (possibly `'FMT' % (...)` or addSQLAttrs('X'))"""
    fn = find_func(cls, meth)
    body = strip_doc(fn.body)
    rets = [n for n in ast.walk(fn) if isinstance(n, ast.Return)]
    consts = []
    for r in rets:
        v = r.value
        if isinstance(v, ast.BinOp) and isinstance(v.op, ast.Mod):
            v = v.left
        if isinstance(v, ast.Call) and ast.unparse(v.func) == 'self.addSQLAttrs' and len(v.args) == 1:
            v = v.args[0]
        if isinstance(v, ast.Constant) and isinstance(v.value, str):
            consts.append(v.value)
    if not consts:
        raise ExtractError('%s.%s: no string constant returned' % (cls.name, meth))
    return consts, body


def _enum_type(cls):
    """SOEnumCol's SQLite type: follow `_sqliteType` through an alias (`_sqliteType = _postgresType`) or a
    one-line delegation (`return self._checkType('sqlite')`) to the method that builds the string"""
    target = '_sqliteType'
    for _ in range(4):
        alias = [n for n in cls.body if isinstance(n, ast.Assign) and ast.unparse(n.targets[0]) == target
                 and isinstance(n.value, ast.Name)]
        if alias:
            target = alias[-1].value.id
            continue
        fn = find_func(cls, target)
        body = strip_doc(fn.body)
        if len(body) == 1 and isinstance(body[0], ast.Return) and isinstance(body[0].value, ast.Call) \
                and isinstance(body[0].value.func, ast.Attribute) and ast.unparse(body[0].value.func.value) == 'self':
            args = body[0].value.args
            if args and not (len(args) == 1 and isinstance(args[0], ast.Constant) and args[0].value == 'sqlite'):
                raise ExtractError('SOEnumCol.%s delegates with unexpected arguments: %s' % (target, ast.unparse(body[0])))
            target = body[0].value.func.attr
            continue
        consts, _ = _ret_str(cls, target)
        if len(consts) != 1:
            raise ExtractError('SOEnumCol.%s: expected one type string, got %r' % (target, consts))
        return consts[0]
    raise ExtractError('SOEnumCol._sqliteType: delegation too deep')


def _sqlite_types(tree):
    t = {}

    def one(clsname, meth, pick=0):
        consts, _ = _ret_str(find_class(tree, clsname), meth)
        return consts[pick]
    # SOStringLikeCol._sqlType: customSQLType / 'TEXT' / 'VARCHAR(%i)' / 'CHAR(%i)'
    consts, _ = _ret_str(find_class(tree, 'SOStringLikeCol'), '_sqlType')
    if len(consts) != 3:
        raise ExtractError('SOStringLikeCol._sqlType: expected TEXT / VARCHAR / CHAR, got %r' % consts)
    t['text'], t['varchar'], t['char'] = consts
    t['int'] = one('SOIntCol', '_sqlType')
    t['tinyInt'] = one('SOTinyIntCol', '_sqlType')
    t['smallInt'] = one('SOSmallIntCol', '_sqlType')
    t['mediumInt'] = one('SOMediumIntCol', '_sqlType')
    t['bigInt'] = one('SOBigIntCol', '_sqlType')
    t['bool'] = one('SOBoolCol', '_sqliteType')
    t['float'] = one('SOFloatCol', '_sqlType')
    t['dateTime'] = one('SODateTimeCol', '_sqliteType')
    t['date'] = one('SODateCol', '_sqliteType')
    t['time'] = one('SOTimeCol', '_sqliteType')
    t['decimal'] = one('SODecimalCol', '_sqlType')
    t['uuid'] = one('SOUuidCol', '_sqlType')
    t['enum'] = _enum_type(find_class(tree, 'SOEnumCol'))
    # key_type = {int: "INT", str: "TEXT"}
    kc = find_class(tree, 'SOKeyCol')
    kt = None
    for node in kc.body:
        if isinstance(node, ast.Assign) and ast.unparse(node.targets[0]) == 'key_type' and isinstance(node.value, ast.Dict):
            kt = {ast.unparse(k): v.value for k, v in zip(node.value.keys, node.value.values)
                  if isinstance(v, ast.Constant)}
    if not kt or 'int' not in kt or 'str' not in kt:
        raise ExtractError('SOKeyCol.key_type not found')
    t['keyInt'], t['keyStr'] = kt['int'], kt['str']
    # the columns that do not override _sqliteType/_sqlType inherit: check the ones the model relies on
    for clsname, meths in (('SOBLOBCol', ('_sqliteType', '_sqlType')), ('SOPickleCol', ('_sqliteType', '_sqlType')),
                           ('SOJSONCol', ('_sqliteType', '_sqlType')), ('SOUnicodeCol', ('_sqliteType', '_sqlType')),
                           ('SOStringCol', ('_sqliteType', '_sqlType')), ('SOTimestampCol', ('_sqliteType',)),
                           ('SOCurrencyCol', ('_sqliteType', '_sqlType')),
                           ('SODecimalStringCol', ('_sqliteType', '_sqlType'))):
        c = find_class(tree, clsname)
        for node in c.body:
            if isinstance(node, ast.FunctionDef) and node.name in meths:
                raise ExtractError('%s now defines %s: the model assumes it is inherited' % (clsname, node.name))
            if isinstance(node, ast.Assign) and ast.unparse(node.targets[0]) in meths:
                raise ExtractError('%s now defines %s: the model assumes it is inherited' % (clsname, ast.unparse(node.targets[0])))
    return t


PYK = {'datetime.datetime': '.datetime', 'datetime.date': '.date', 'datetime.time': '.time',
       'sqlbuilder.SQLExpression': None}


def _first_isinstance_tuple(fn, what):
    for node in ast.walk(fn):
        if isinstance(node, ast.Call) and ast.unparse(node.func) == 'isinstance' \
                and ast.unparse(node.args[0]) == 'value' and isinstance(node.args[1], ast.Tuple):
            out = []
            for e in node.args[1].elts:
                s = ast.unparse(e)
                if s not in PYK:
                    raise ExtractError('%s: unknown type %s in isinstance' % (what, s))
                if PYK[s]:
                    out.append(PYK[s])
            return out
    raise ExtractError('%s: isinstance(value, (...)) not found' % what)


def _fk_type_follows_referenced(tree):
    """which class's sqlmeta.idType picks the SQL type of a ForeignKey column: SOForeignKey._idType must look
    the REFERENCED class up (findClass(self.foreignKey, ...).sqlmeta.idType); if the override is gone the
    inherited SOKeyCol._idType uses the column's own class"""
    base = find_func(find_class(tree, 'SOKeyCol'), '_idType')
    if ast.unparse(strip_doc(base.body)[-1]) != 'return self.soClass.sqlmeta.idType':
        raise ExtractError('SOKeyCol._idType: unexpected body %s' % ast.unparse(base))
    st = find_func(find_class(tree, 'SOKeyCol'), '_sqlType')
    if ast.unparse(strip_doc(st.body)[-1]) != 'return self.key_type[self._idType()]':
        raise ExtractError('SOKeyCol._sqlType: unexpected body')
    fk = find_class(tree, 'SOForeignKey')
    for node in fk.body:
        if isinstance(node, ast.FunctionDef) and node.name in ('_sqlType', '_sqliteType'):
            raise ExtractError('SOForeignKey now defines %s' % node.name)
    over = [n for n in fk.body if isinstance(n, ast.FunctionDef) and n.name == '_idType']
    if not over:
        return False
    body = [ast.unparse(x) for x in strip_doc(over[0].body)]
    if body == ['other = findClass(self.foreignKey, self.soClass.sqlmeta.registry)', 'return other.sqlmeta.idType']:
        return True
    raise ExtractError('SOForeignKey._idType: unexpected body %r' % body)


def _base64(repo):
    tree = parse(repo, 'sqlobject/sqlite/sqliteconnection.py')
    enc = dec = None
    for node in ast.walk(tree):
        if isinstance(node, ast.Assign) and len(node.targets) == 1:
            t = ast.unparse(node.targets[0])
            if t == 'sqlite.encode':
                enc = ast.unparse(node.value)
            if t == 'sqlite.decode':
                dec = ast.unparse(node.value)
    if enc != 'base64.b64encode' or dec != 'base64.b64decode':
        raise ExtractError('sqlite binary codec is %s / %s, the model knows base64.b64encode / b64decode' % (enc, dec))
    return True


def extract(repo):
    conv = parse(repo, 'sqlobject/converters.py')
    col = parse(repo, 'sqlobject/col.py')
    L = [HEADER % 'codec', 'import SqlObjVerif.Model.CodecSyn', '', 'namespace SqlObjVerif.Codec.Extracted', '']
    for lean, typ in (('convDateTime', 'datetime.datetime'), ('convDate', 'datetime.date'), ('convTime', 'datetime.time')):
        fname = _registered(conv, typ)
        L.append('/-- converters.py: `%s`, registered for `%s` -/' % (fname, typ))
        L.append('def %s : Conv := %s' % (lean, _conv(conv, fname)))
        L.append('')
    t, f = _bool_literals(conv)
    L.append('/-- BoolConverter, db other than postgres -/')
    L.append('def boolTrue : Str := %s' % lean_nat_list(t))
    L.append('def boolFalse : Str := %s' % lean_nat_list(f))
    L.append('')
    L.append('/-- NoneConverter -/')
    L.append('def nullLit : Str := %s' % lean_nat_list(_const_return(conv, 'NoneConverter')))
    L.append('')
    pair, pre, post = _string_sqlite(conv)
    L.append("/-- StringLikeConverter, sqlite branch: `value.replace(orig, repl)` then `pre + value + post` -/")
    L.append('def strReplOrig : Nat := %d' % ord(pair[0]))
    L.append('def strReplNew : Str := %s' % lean_nat_list(pair[1]))
    L.append('def strPre : Str := %s' % lean_nat_list(pre))
    L.append('def strPost : Str := %s' % lean_nat_list(post))
    L.append('')
    for lean, cls, attr in (('fmtDateTime', 'SODateTimeCol', 'datetimeFormat'), ('fmtDate', 'SODateCol', 'dateFormat'),
                            ('fmtTime', 'SOTimeCol', 'timeFormat')):
        s = _class_attr(find_class(col, cls), attr)
        L.append('/-- col.py: `%s.%s = %r` -/' % (cls, attr, s))
        L.append('def %s : List SPiece := %s' % (lean, _strp_pieces(s)))
        L.append('')
    types = _sqlite_types(col)
    L.append('/-- col.py: SQLite column types (`_sqliteType` / `_sqlType`), `%i` left in place -/')
    for k in sorted(types):
        L.append('def ty_%s : Str := %s  -- %r' % (k, lean_nat_list(types[k]), types[k]))
    L.append('')
    dtv = find_class(col, 'DateTimeValidator')
    L.append('/-- `DateTimeValidator.from_python` / `.to_python`: Python types returned unchanged -/')
    L.append('def dtFromPythonPass : List PassKind := [%s]'
             % ', '.join(_first_isinstance_tuple(find_func(dtv, 'from_python'), 'DateTimeValidator.from_python')))
    L.append('def dtToPythonPass : List PassKind := [%s]'
             % ', '.join(_first_isinstance_tuple(find_func(dtv, 'to_python'), 'DateTimeValidator.to_python')))
    L.append('')
    L.append('/-- col.py: `SOForeignKey._idType` takes the idType of the REFERENCED class (true) or, inherited from')
    L.append('    `SOKeyCol`, of the column\'s own class (false); `key_type[...]` of it is the column type -/')
    L.append('def fkTypeFollowsReferenced : Bool := %s' % ('true' if _fk_type_follows_referenced(col) else 'false'))
    L.append('')
    _base64(repo)
    L.append('/-- sqliteconnection.py: `sqlite.encode = base64.b64encode`, `sqlite.decode = base64.b64decode` (checked) -/')
    L.append('def binaryIsBase64 : Bool := true')
    L.append('')
    L.append('end SqlObjVerif.Codec.Extracted')
    return '\n'.join(L) + '\n'
