"""TRANSLATOR: `SQLObject.destroySelf`, `findDependantColumns` and `findDependencies` of sqlobject/main.py -> PyDestroy blocks.

The function bodies are translated statement by statement into the deep embedding of
`lean/SqlObjVerif/Model/PyDestroy.lean`.  Anything outside the fragment raises ExtractError (the framework then
searches for a failing input and reports).  Conventions of the translation:
  * locals are numbered in order of first binding, the parameters (after `self`) first; a behaviour-preserving
    rename of a local gives the same term; a new local, or a changed order of first bindings, renumbers;
  * a method call is a QUERY (an expression, assumed not to change anything) iff its name is in QUERIES; a call of a
    module-level function is an expression iff its dotted name is in PURE_FNS; `len`, `getattr` (two arguments),
    `isinstance` are expression forms; every other call must be a statement of its own (`x = r.m(..)`, `r.m(..)`,
    `f(..)` for a local `f`): it goes through the interpreter's `call` / `callFn` parameter;
  * locals are VALUES: `x.append(e)` / `x[k] = v` are only accepted for a local that is always bound to a fresh value
    (`[]`, `{}`, the result of a call) and that is otherwise only read in positions that cannot create an alias
    (`*x`, `**x`, `for … in x`, truthiness, `len(x)`, `return x`, as an argument of `.send(…)` — signal listeners
    that append post-functions are outside the model — and in the statement directly after `x = <call>`, where `x`
    holds the call's result);
  * `raise Cls(message)` keeps the class only, `assert c, message` the condition only (the messages must be
    expressions of the fragment);
  * the body of the n-th `for` loop of a function (source order) becomes its own definition `<f>_for<n>`;
  * `SQLObject._SO_depends` is compared with the text the interface assumption of Model/GraphX.lean was written for.
"""
import ast
from . import ExtractError, parse, find_class, find_func, strip_doc, HEADER, lean_str

TARGET = 'PyDestroy'

QUERIES = ('_SO_depends', 'select', 'count', 'allClasses')
PURE_FNS = ('findDependantColumns', 'sqlbuilder.OR', 'classregistry.registry')
MODULES = ('events', 'joins', 'sqlbuilder', 'classregistry')
ALIAS_SAFE_CALLS = ('send',)
SO_DEPENDS = ['return findDependencies(cls.__name__, cls.sqlmeta.registry)']


def _strs(path):
    return '[' + ', '.join(lean_str(p) for p in path) + ']'


def _dotted(n):
    """'a.b.c' for a chain of attributes rooted at a Name, else None"""
    path = []
    while isinstance(n, ast.Attribute):
        path.append(n.attr)
        n = n.value
    if isinstance(n, ast.Name):
        return '.'.join([n.id] + list(reversed(path))), n.id
    return None, None


class Func(object):
    def __init__(self, fn, method):
        self.fn = fn
        self.name = fn.name
        a = fn.args
        if a.kwonlyargs or a.posonlyargs or a.vararg or a.kwarg or fn.decorator_list or \
                not all(isinstance(d, ast.Constant) for d in a.defaults):
            raise ExtractError('unexpected signature of %s' % fn.name)
        params = [x.arg for x in a.args]
        if method:
            if not params or params[0] != 'self':
                raise ExtractError('%s: first parameter is not self' % fn.name)
            params = params[1:]
        elif 'self' in params:
            raise ExtractError('%s: a function with a parameter self' % fn.name)
        self.method = method
        self.params = params
        self.vars = list(params)
        self.mutable = set()
        self.loops = []
        body = strip_doc(fn.body)
        self._collect(body)
        self._check_alias(body)
        self.in_loop = 0
        self.body = self.block(body)

    def fail(self, what, n=None):
        raise ExtractError('%s: %s%s' % (self.name, what, (': ' + ast.unparse(n).split('\n')[0]) if n is not None else ''))

    # ---- names ---------------------------------------------------------------------------
    def _collect(self, stmts):
        m = self

        def bind(name):
            if name == 'self':
                m.fail('self is rebound')
            if name not in m.vars:
                m.vars.append(name)

        class V(ast.NodeVisitor):
            def visit_Assign(s, n):
                if len(n.targets) != 1:
                    m.fail('chained assignment', n)
                s.visit(n.value)
                t = n.targets[0]
                if isinstance(t, ast.Name):
                    bind(t.id)
                elif isinstance(t, (ast.Tuple, ast.List, ast.Starred)):
                    m.fail('unpacking assignment', n)
                else:
                    s.visit(t)

            def visit_AugAssign(s, n):
                m.fail('augmented assignment', n)

            visit_AnnAssign = visit_AugAssign

            def visit_For(s, n):
                if not isinstance(n.target, ast.Name):
                    m.fail('loop target outside the fragment', n)
                if n.orelse:
                    m.fail('for/else', n)
                s.visit(n.iter)
                bind(n.target.id)
                for b in n.body:
                    s.visit(b)

            def visit_FunctionDef(s, n):
                m.fail('nested function')

            visit_Lambda = visit_AsyncFunctionDef = visit_ClassDef = visit_FunctionDef
            visit_GeneratorExp = visit_SetComp = visit_DictComp = visit_ListComp = visit_FunctionDef

            def visit_NamedExpr(s, n):
                m.fail('walrus')

            def visit_With(s, n):
                m.fail('with statement')

            def visit_Try(s, n):
                m.fail('try statement')

            def visit_Global(s, n):
                m.fail('global')

            visit_Nonlocal = visit_While = visit_Yield = visit_YieldFrom = visit_Await = visit_Global

            def visit_Delete(s, n):
                m.fail('del statement', n)

            def visit_ImportFrom(s, n):
                m.fail('import')

            visit_Import = visit_ImportFrom

        for st in stmts:
            V().visit(st)

    def _check_alias(self, stmts):
        """locals mutated in place (`x.append`, `x[k] = v`) must never be aliased"""
        m = self
        for n in ast.walk(ast.Module(body=stmts, type_ignores=[])):
            if isinstance(n, ast.Call) and isinstance(n.func, ast.Attribute) and n.func.attr == 'append' \
                    and isinstance(n.func.value, ast.Name) and n.func.value.id in m.vars:
                m.mutable.add(n.func.value.id)
            if isinstance(n, ast.Assign) and isinstance(n.targets[0], ast.Subscript) \
                    and isinstance(n.targets[0].value, ast.Name) and n.targets[0].value.id in m.vars:
                m.mutable.add(n.targets[0].value.id)
        safe = set()      # ids of Name nodes in positions that cannot create an alias

        def mark(e):
            if isinstance(e, ast.Name):
                safe.add(id(e))

        def mark_test(e):
            if isinstance(e, ast.BoolOp):
                for v in e.values:
                    mark_test(v)
            elif isinstance(e, ast.UnaryOp) and isinstance(e.op, ast.Not):
                mark_test(e.operand)
            else:
                mark(e)
        for n in ast.walk(ast.Module(body=stmts, type_ignores=[])):
            if isinstance(n, ast.Assign):
                t = n.targets[0]
                if isinstance(t, ast.Name) and t.id in m.mutable:
                    v = n.value
                    fresh = (isinstance(v, ast.List) and not v.elts) or (isinstance(v, ast.Dict) and not v.keys) \
                        or isinstance(v, ast.Call)
                    if not fresh:
                        m.fail('%s is mutated in place but bound to something that is not a fresh value' % t.id, n)
                if isinstance(t, ast.Subscript):
                    mark(t.value)
            elif isinstance(n, ast.Call):
                for a in n.args:
                    if isinstance(a, ast.Starred):
                        mark(a.value)
                for k in n.keywords:
                    if k.arg is None:
                        mark(k.value)
                if isinstance(n.func, ast.Attribute) and n.func.attr == 'append':
                    mark(n.func.value)
                if isinstance(n.func, ast.Attribute) and n.func.attr in ALIAS_SAFE_CALLS:
                    for a in n.args:
                        mark(a)
                if isinstance(n.func, ast.Name) and n.func.id == 'len':
                    for a in n.args:
                        mark(a)
            elif isinstance(n, ast.For):
                mark(n.iter)
            elif isinstance(n, (ast.If, ast.Assert)):
                mark_test(n.test)
            elif isinstance(n, ast.Return) and n.value is not None:
                mark(n.value)

        def touches(st, name):
            for x in ast.walk(st):
                if isinstance(x, ast.Name) and x.id == name and isinstance(x.ctx, (ast.Store, ast.Del)):
                    return True
                if isinstance(x, ast.Call) and isinstance(x.func, ast.Attribute) and x.func.attr == 'append' \
                        and isinstance(x.func.value, ast.Name) and x.func.value.id == name:
                    return True
                if isinstance(x, ast.Subscript) and isinstance(x.value, ast.Name) and x.value.id == name \
                        and isinstance(x.ctx, ast.Store):
                    return True
            return False

        def scan(block):
            # a read of L in a statement that follows (same block, nothing touching L in between) `L = <call>`:
            # L holds the call's result there, not a container this function mutates
            for i, st in enumerate(block):
                for L in m.mutable:
                    j = i - 1
                    while j >= 0 and not touches(block[j], L):
                        j -= 1
                    if j >= 0 and isinstance(block[j], ast.Assign) and isinstance(block[j].targets[0], ast.Name) \
                            and block[j].targets[0].id == L and isinstance(block[j].value, ast.Call) \
                            and not isinstance(st, (ast.For, ast.If)):
                        for x in ast.walk(st):
                            if isinstance(x, ast.Name) and x.id == L and isinstance(x.ctx, ast.Load):
                                safe.add(id(x))
                for f in ('body', 'orelse'):
                    if isinstance(st, (ast.For, ast.If)):
                        scan(getattr(st, f))
        scan(stmts)
        for n in ast.walk(ast.Module(body=stmts, type_ignores=[])):
            if isinstance(n, ast.Name) and n.id in m.mutable and isinstance(n.ctx, ast.Load) and id(n) not in safe:
                m.fail('%s is mutated in place and read where it could be aliased (line %d)' % (n.id, n.lineno))

    def var(self, name):
        if name in self.vars:
            return self.vars.index(name)
        self.fail('name %s is not a parameter or local' % name)

    # ---- expressions ---------------------------------------------------------------------
    def const(self, n):
        if isinstance(n, ast.Constant):
            v = n.value
            if v is None:
                return '.none'
            if v is True or v is False:
                return '(.bool %s)' % ('true' if v else 'false')
            if isinstance(v, int) and v >= 0:
                return '(.int %d)' % v
            if isinstance(v, str):
                return '(.str %s)' % lean_str(v)
        self.fail('constant outside the fragment', n)

    def exprs(self, ns):
        out = '.nil'
        for e in reversed([self.expr(a) for a in ns]):
            out = '(.cons %s %s)' % (e, out)
        return out

    def pure_fn_name(self, f):
        """dotted name of a module-level pure function called by `f(...)`, else None"""
        name, root = _dotted(f)
        if name is None or root in self.vars or root == 'self':
            return None
        return name if name in PURE_FNS else None

    def is_pure_call(self, n):
        if not isinstance(n, ast.Call):
            return False
        f = n.func
        if isinstance(f, ast.Name) and f.id in ('len', 'getattr', 'isinstance') and f.id not in self.vars:
            return True
        if self.pure_fn_name(f):
            return True
        return isinstance(f, ast.Attribute) and f.attr in QUERIES

    def expr(self, n):
        if isinstance(n, ast.Name):
            if n.id == 'self':
                if not self.method:
                    self.fail('self outside a method')
                return '.self'
            if n.id in self.vars:
                return '(.var %d)' % self.var(n.id)
            self.fail('unknown name %s' % n.id)
        if isinstance(n, ast.Constant):
            return '(.const %s)' % self.const(n)
        if isinstance(n, ast.Attribute):
            name, root = _dotted(n)
            if name is not None and root not in self.vars and root != 'self':
                if root in MODULES:
                    return '(.glob %s)' % lean_str(name)
                self.fail('unknown global %s' % name)
            return '(.attr %s %s)' % (self.expr(n.value), lean_str(n.attr))
        if isinstance(n, ast.List) and not n.elts and isinstance(n.ctx, ast.Load):
            return '.emptyList'
        if isinstance(n, ast.Dict) and not n.keys:
            return '.emptyDict'
        if isinstance(n, ast.BinOp) and isinstance(n.op, ast.Mod) and isinstance(n.right, ast.Tuple):
            return '(.mod %s %s)' % (self.expr(n.left), self.exprs(n.right.elts))
        if isinstance(n, ast.Compare):
            if len(n.ops) != 1:
                self.fail('chained comparison', n)
            op, rhs = n.ops[0], n.comparators[0]
            if isinstance(op, ast.Eq):
                return '(.eq %s %s)' % (self.expr(n.left), self.expr(rhs))
            if isinstance(op, (ast.Is, ast.IsNot)) and isinstance(rhs, ast.Constant) and \
                    (rhs.value is None or rhs.value is True or rhs.value is False):
                return '(.%s %s %s)' % ('isC' if isinstance(op, ast.Is) else 'isNotC', self.expr(n.left), self.const(rhs))
            if isinstance(op, (ast.Is, ast.IsNot)) and not isinstance(rhs, ast.Constant):
                return '(.%s %s %s)' % ('is' if isinstance(op, ast.Is) else 'isNot', self.expr(n.left), self.expr(rhs))
            self.fail('comparison outside the fragment', n)
        if isinstance(n, ast.Call):
            f = n.func
            star = [a for a in n.args if isinstance(a, ast.Starred)]
            if any(k.arg is None for k in n.keywords):
                self.fail('** in an expression call', n)
            if isinstance(f, ast.Name) and f.id not in self.vars:
                if star or n.keywords:
                    self.fail('call outside the fragment', n)
                if f.id == 'len' and len(n.args) == 1:
                    return '(.len %s)' % self.expr(n.args[0])
                if f.id == 'getattr' and len(n.args) == 2:
                    return '(.getattr %s %s)' % (self.expr(n.args[0]), self.expr(n.args[1]))
                if f.id == 'isinstance' and len(n.args) == 2:
                    cls, root = _dotted(n.args[1])
                    if cls is None or root in self.vars or root == 'self':
                        self.fail('isinstance with a computed class', n)
                    return '(.isinstance %s %s)' % (self.expr(n.args[0]), lean_str(cls))
            pf = self.pure_fn_name(f)
            if pf:
                if n.keywords:
                    self.fail('keyword arguments of a module function', n)
                if star:
                    if len(n.args) != 1:
                        self.fail('f(a, *b) outside the fragment', n)
                    return '(.fnStar %s %s)' % (lean_str(pf), self.expr(star[0].value))
                return '(.fn %s %s)' % (lean_str(pf), self.exprs(n.args))
            if isinstance(f, ast.Attribute) and f.attr in QUERIES:
                if star:
                    self.fail('* in a query', n)
                return '(.query %s %s %s %s %s)' % (self.expr(f.value), lean_str(f.attr), self.exprs(n.args),
                                                    _strs([k.arg for k in n.keywords]),
                                                    self.exprs([k.value for k in n.keywords]))
            self.fail('a call that is not a query must be a statement of its own', n)
        self.fail('expression outside the fragment', n)

    def cond(self, n):
        if isinstance(n, ast.UnaryOp) and isinstance(n.op, ast.Not):
            return '(.not %s)' % self.cond(n.operand)
        if isinstance(n, ast.BoolOp):
            op = 'and' if isinstance(n.op, ast.And) else 'or'
            parts = [self.cond(v) for v in n.values]
            out = parts[-1]
            for p in reversed(parts[:-1]):
                out = '(.%s %s %s)' % (op, p, out)
            return out
        return '(.truthy %s)' % self.expr(n)

    # ---- statements ----------------------------------------------------------------------
    def call_stmt(self, target, c):
        """an effectful call `[target =] c`; target: 'none' or '(some i)'"""
        f = c.func
        if any(isinstance(a, ast.Starred) for a in c.args):
            self.fail('call with * outside the fragment', c)
        stars = [k for k in c.keywords if k.arg is None]
        kws = [k for k in c.keywords if k.arg is not None]
        sk = 'none'
        if stars:
            if len(stars) != 1 or not isinstance(stars[0].value, ast.Name) or c.keywords[-1] is not stars[0]:
                self.fail('** outside the fragment', c)
            sk = '(some %d)' % self.var(stars[0].value.id)
        if isinstance(f, ast.Attribute):
            return '(.call %s %s %s %s %s %s %s)' % (
                target, self.expr(f.value), lean_str(f.attr), self.exprs(c.args),
                _strs([k.arg for k in kws]), self.exprs([k.value for k in kws]), sk)
        if isinstance(f, ast.Name) and f.id in self.vars and not c.keywords:
            return '(.callFn %s %s %s)' % (target, self.expr(f), self.exprs(c.args))
        self.fail('call outside the fragment', c)

    def loop(self, body):
        idx = len(self.loops)
        self.loops.append(None)
        self.in_loop += 1
        self.loops[idx] = self.block(body)
        self.in_loop -= 1
        return '%s_for%d' % (self.name, idx)

    def stmt(self, n):
        """-> list of translated statements"""
        if isinstance(n, ast.Pass):
            return ['.pass']
        if isinstance(n, ast.Continue):
            return ['.continue']
        if isinstance(n, ast.Break):
            return ['.break']
        if isinstance(n, ast.Return):
            if n.value is None or (isinstance(n.value, ast.Constant) and n.value.value is None):
                return ['.retNone']
            return ['(.ret %s)' % self.expr(n.value)]
        if isinstance(n, ast.Raise):
            if n.cause is None and isinstance(n.exc, ast.Call) and isinstance(n.exc.func, ast.Name) \
                    and n.exc.func.id not in self.vars and not n.exc.keywords:
                for a in n.exc.args:
                    self.expr(a)         # the message must be in the fragment; it is dropped
                return ['(.raise %s)' % lean_str(n.exc.func.id)]
            self.fail('only `raise Class(message)` is in the fragment', n)
        if isinstance(n, ast.Assert):
            if n.msg is not None:
                self.expr(n.msg)
            return ['(.assert %s)' % self.cond(n.test)]
        if isinstance(n, ast.If):
            return ['(.ite %s %s %s)' % (self.cond(n.test), self.block(n.body), self.block(n.orelse))]
        if isinstance(n, ast.Assign) and len(n.targets) == 1:
            t, v = n.targets[0], n.value
            if isinstance(t, ast.Name):
                if isinstance(v, ast.Call) and not self.is_pure_call(v):
                    return [self.call_stmt('(some %d)' % self.var(t.id), v)]
                return ['(.assign %d %s)' % (self.var(t.id), self.expr(v))]
            if isinstance(t, ast.Subscript) and isinstance(t.value, ast.Name) and t.value.id in self.mutable \
                    and not isinstance(t.slice, (ast.Slice, ast.Tuple)):
                return ['(.setItem %d %s %s)' % (self.var(t.value.id), self.expr(t.slice), self.expr(v))]
            if isinstance(t, ast.Attribute):
                return ['(.setAttr %s %s %s)' % (self.expr(t.value), lean_str(t.attr), self.expr(v))]
        if isinstance(n, ast.Expr) and isinstance(n.value, ast.Call):
            c, f = n.value, n.value.func
            if isinstance(f, ast.Attribute) and f.attr == 'append' and isinstance(f.value, ast.Name) \
                    and f.value.id in self.vars:
                if len(c.args) != 1 or c.keywords or isinstance(c.args[0], ast.Starred):
                    self.fail('append outside the fragment', n)
                return ['(.append %d %s)' % (self.var(f.value.id), self.expr(c.args[0]))]
            if isinstance(f, ast.Attribute) and isinstance(f.value, ast.Name) and f.value.id in self.vars and \
                    f.attr in ('extend', 'update', 'pop', 'clear', 'remove', 'insert', 'setdefault', 'sort', 'reverse', 'add'):
                self.fail('mutation of a container outside the fragment', n)
            if self.is_pure_call(c):
                self.fail('query used as a statement', n)
            return [self.call_stmt('none', c)]
        if isinstance(n, ast.For) and not n.orelse and isinstance(n.target, ast.Name):
            it = n.iter
            if isinstance(it, ast.Name):
                for sub in n.body:
                    for x in ast.walk(sub):
                        if (isinstance(x, ast.Name) and x.id == it.id and isinstance(x.ctx, (ast.Store, ast.Del))) or \
                                (isinstance(x, ast.Call) and isinstance(x.func, ast.Attribute)
                                 and isinstance(x.func.value, ast.Name) and x.func.value.id == it.id
                                 and x.func.attr == 'append') or \
                                (isinstance(x, ast.Subscript) and isinstance(x.value, ast.Name) and x.value.id == it.id
                                 and isinstance(x.ctx, ast.Store)):
                            self.fail('loop over %s changes it' % it.id)
            ite = self.expr(it)
            return ['(.for %d %s %s)' % (self.var(n.target.id), ite, self.loop(n.body))]
        self.fail('statement outside the fragment', n)

    def block(self, stmts):
        parts = []
        for s in stmts:
            parts += self.stmt(s)
        out = '.nil'
        for p in reversed(parts):
            out = '(.cons %s\n    %s)' % (p, out)
        return out


def _check_text(what, fn, want):
    src = [ast.unparse(s) for s in strip_doc(fn.body)]
    if src != want:
        raise ExtractError('%s changed: %r' % (what, src))


def _module_func(tree, name):
    for s in tree.body:
        if isinstance(s, ast.FunctionDef) and s.name == name:
            return s
    raise ExtractError('function %s not found at module level' % name)


def extract(repo):
    tree = parse(repo, 'sqlobject/main.py')
    so = find_class(tree, 'SQLObject')
    dep = find_func(so, '_SO_depends')
    if [ast.unparse(d) for d in dep.decorator_list] != ['classmethod']:
        raise ExtractError('SQLObject._SO_depends is no longer a classmethod')
    _check_text('SQLObject._SO_depends', dep, SO_DEPENDS)
    funcs = [Func(_module_func(tree, 'findDependantColumns'), False),
             Func(_module_func(tree, 'findDependencies'), False),
             Func(find_func(so, 'destroySelf'), True)]
    lines = [HEADER % 'pydestroy', 'import SqlObjVerif.Model.PyDestroy', '',
             'namespace SqlObjVerif.PyDestroy.Extracted', 'open SqlObjVerif.PyDestroy', '']
    for m in funcs:
        for i in reversed(range(len(m.loops))):
            lines += ['/-- body of `for` loop %d of `%s` -/' % (i, m.name),
                      'def %s_for%d : Block :=\n  %s' % (m.name, i, m.loops[i]), '']
        lines += ['/-- `%s(%s)`, translated; locals: %s -/'
                  % (m.name, ', '.join((['self'] if m.method else []) + m.params),
                     ', '.join('%s=%d' % (v, i) for i, v in enumerate(m.vars)) or '-'),
                  'def %sProg : Block :=\n  %s' % (m.name, m.body),
                  'def %s_nargs : Nat := %d' % (m.name, len(m.params)),
                  'def %s_nlocals : Nat := %d' % (m.name, len(m.vars)), '']
    lines.append('end SqlObjVerif.PyDestroy.Extracted')
    return '\n'.join(lines) + '\n'
