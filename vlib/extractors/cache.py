"""CacheFactory constants and two small if-shapes of cache.py, as Lean data:
the defaults of `CacheFactory.__init__`, the comparison that triggers `cull` in `get` / `created`,
and whether `expire` drops the weak entry also when strong caching is off."""
import ast
from . import ExtractError, parse, find_class, find_func, strip_doc, HEADER

TARGET = 'Cache'


def _defaults(fn):
    args = fn.args
    names = [a.arg for a in args.args]
    defaults = dict(zip(names[len(names) - len(args.defaults):], args.defaults))
    out = {}
    for n in ('cullFrequency', 'cullFraction', 'cache'):
        if n not in defaults or not isinstance(defaults[n], ast.Constant):
            raise ExtractError('CacheFactory.__init__ has no literal default for %s' % n)
        out[n] = defaults[n].value
    if not (isinstance(out['cullFrequency'], int) and isinstance(out['cullFraction'], int)
            and out['cullFrequency'] >= 0 and out['cullFraction'] >= 0 and isinstance(out['cache'], bool)):
        raise ExtractError('unexpected defaults %r' % out)
    return out


def _cull_cmp(fn):
    """the test guarding `self.cull()`"""
    found = []
    for node in ast.walk(fn):
        if isinstance(node, ast.If) and any('self.cull()' in ast.unparse(b) for b in node.body):
            t = ast.unparse(node.test)
            if t == 'self.cullCount > self.cullFrequency':
                found.append(True)
            elif t == 'self.cullCount >= self.cullFrequency':
                found.append(False)
            elif t != 'self.doCache':
                raise ExtractError('unknown cull trigger in %s: %s' % (fn.name, t))
    if len(found) != 1:
        raise ExtractError('expected one cull trigger in %s, found %d' % (fn.name, len(found)))
    return found[0]


def _alpha(fn):
    """copy of a method with its parameters (but self) and local variables renamed in order of first
    appearance (p0, p1, … / v0, v1, …): the shape tests below do not depend on the names chosen"""
    import copy
    fn = copy.deepcopy(fn)
    names = {}
    for k, a in enumerate(x for x in fn.args.args if x.arg != 'self'):
        names[a.arg] = 'p%d' % k
        a.arg = names[a.arg]
    stored = []
    for node in ast.walk(fn):
        if isinstance(node, ast.Name) and isinstance(node.ctx, ast.Store) and node.id not in names \
                and node.id not in stored:
            stored.append(node.id)
    # order of first appearance in the source
    order = sorted(stored, key=lambda n: min((x.lineno, x.col_offset) for x in ast.walk(fn)
                                             if isinstance(x, ast.Name) and x.id == n))
    for k, n in enumerate(order):
        names[n] = 'v%d' % k
    for node in ast.walk(fn):
        if isinstance(node, ast.Name) and node.id in names:
            node.id = names[node.id]
    return fn


def _expire_weak_always(fn):
    fn = _alpha(fn)
    body = strip_doc(fn.body)
    early = False
    for st in body:
        if isinstance(st, ast.If) and ast.unparse(st.test) == 'not self.doCache' \
                and len(st.body) == 1 and isinstance(st.body[0], ast.Return):
            early = True
    src = ast.unparse(fn)
    if 'del self.expiredCache[p0]' not in src and 'self.expiredCache.pop(p0' not in src:
        raise ExtractError('CacheFactory.expire no longer deletes the weak entry')
    return not early


def _tryget_falls_through(fn):
    """does tryGet go on to the strong cache when the weak reference it finds is dead?"""
    fn = _alpha(fn)
    body = strip_doc(fn.body)
    if not body or ast.unparse(body[0]) != 'v0 = self.expiredCache.get(p0)':
        raise ExtractError('tryGet does not start by looking up the weak entry: %s'
                           % (ast.unparse(body[0]) if body else '<empty>'))
    first = None
    for st in body[1:]:
        if isinstance(st, ast.If) and ast.unparse(st.test) in ('v0', 'v0 is not None'):
            first = st
            break
    if first is None:
        raise ExtractError('tryGet: test of the weak entry not found')
    src = [ast.unparse(x) for x in first.body]
    if src == ['return v0()']:
        return False
    if src == ['v1 = v0()', 'if v1 is not None:\n    return v1']:
        return True
    raise ExtractError('tryGet: unknown handling of the weak entry: %r' % src)


def extract(repo):
    tree = parse(repo, 'sqlobject/cache.py')
    cf = find_class(tree, 'CacheFactory')
    d = _defaults(find_func(cf, '__init__'))
    c1 = _cull_cmp(find_func(cf, 'get'))
    c2 = _cull_cmp(find_func(cf, 'created'))
    if c1 != c2:
        raise ExtractError('get and created trigger cull differently')
    ew = _expire_weak_always(find_func(cf, 'expire'))
    tg = _tryget_falls_through(find_func(cf, 'tryGet'))
    b = lambda x: 'true' if x else 'false'
    lines = [HEADER % 'cache', '', 'namespace SqlObjVerif.Extracted.Cache', '',
             '/-- default of `CacheFactory.__init__(cullFrequency=…)` -/',
             'def defaultCullFrequency : Nat := %d' % d['cullFrequency'], '',
             '/-- default of `CacheFactory.__init__(cullFraction=…)` -/',
             'def defaultCullFraction : Nat := %d' % d['cullFraction'], '',
             '/-- default of `CacheFactory.__init__(cache=…)` -/',
             'def defaultDoCache : Bool := %s' % b(d['cache']), '',
             '/-- `get` / `created` call `cull()` when `cullCount > cullFrequency` (true) or `>=` (false) -/',
             'def cullTriggerStrict : Bool := %s' % b(c1), '',
             '/-- `expire(id)` deletes the weak entry also when strong caching is off (no early return) -/',
             'def expireDropsWeakAlways : Bool := %s' % b(ew), '',
             '/-- `tryGet(id)` looks in the strong cache when the weak reference it finds is dead -/',
             'def tryGetFallsThrough : Bool := %s' % b(tg), '',
             'end SqlObjVerif.Extracted.Cache']
    return '\n'.join(lines) + '\n'
