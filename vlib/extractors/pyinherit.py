"""TRANSLATOR: the instance-level inheritance code of sqlobject/inheritance/__init__.py -> PyInherit blocks.

`InheritableSQLObject.destroySelf / deleteMany / deleteBy / _create / get` are translated statement by
statement into the deep embedding of `lean/SqlObjVerif/Model/PyInherit.lean`.  Anything outside the fragment
raises ExtractError (the framework then searches for a failing input and reports).  Conventions:
  * the first parameter (`self`, or `cls` of a `@classmethod`) is `.self`; the other parameters (a `**kw`
    parameter counts as one, a dict value) and the locals are numbered in order of first binding, parameters
    first; temporaries of hoisted calls come last (`<m>_nargs`, `<m>_nlocals`); a behaviour-preserving rename of a
    local gives the same term;
  * every call other than `list(e)`, `e.items()`, `isinstance`, `hasattr` goes through the interpreter's `call`
    (method of a value), `callFn` (call of a local: the constructor of the class it holds) or `super`
    (`super(InheritableSQLObject, self).m(…)`) parameter and must be hoistable to a statement of its own:
    `x = CALL`, `CALL`, `return CALL`, `obj.a = CALL`, `for x in list(CALL)`;
  * `sqlbuilder.X` / `dbconnection.X` are module constants (`.global`);
  * `x[k] = v` only for a local whose every binding is `x = {}`, not used through an alias afterwards;
  * `raise C(msg)` keeps the class only (the message must be built from constants, `%`, names and attributes);
  * the body of the n-th loop of a method (source order) becomes its own definition `<m>_loop<n>` (the condition
    of a `while` loop: `<m>_loop<n>_cond`).
"""
import ast
from . import ExtractError, parse, find_class, find_func, strip_doc, HEADER, lean_str

TARGET = 'PyInherit'
REL = 'sqlobject/inheritance/__init__.py'
CLASS = 'InheritableSQLObject'
METHODS = ['destroySelf', 'deleteMany', 'deleteBy', '_create', 'get']
MODULES = ('sqlbuilder', 'dbconnection')
EXC_PAT = {'TypeError': '.typeError', 'KeyError': '.keyError', 'AttributeError': '.attributeError',
           'Exception': '.exception', 'BaseException': '.baseException'}
EXC_CLS = {'TypeError': '.typeError', 'KeyError': '.keyError', 'AttributeError': '.attributeError'}


def lean_name(m):
    return {'_create': 'create'}.get(m, m.lstrip('_'))


def _strs(path):
    return '[' + ', '.join(lean_str(p) for p in path) + ']'


def _attr_chain(n):
    """(root expression, ['a', 'b']) for `<root>.a.b` where root is not an attribute"""
    path = []
    while isinstance(n, ast.Attribute):
        path.append(n.attr)
        n = n.value
    return n, list(reversed(path))


def _is_none(n):
    return isinstance(n, ast.Constant) and n.value is None


class Method(object):
    def __init__(self, fn):
        self.fn = fn
        self.name = fn.name
        a = fn.args
        decos = [ast.unparse(d) for d in fn.decorator_list]
        if a.kwonlyargs or a.posonlyargs or a.vararg or not a.args or decos not in ([], ['classmethod']):
            raise ExtractError('unexpected signature of %s' % fn.name)
        self.me = a.args[0].arg
        if self.me != ('cls' if decos else 'self'):
            raise ExtractError('%s: first parameter is %s' % (fn.name, self.me))
        self.params = [x.arg for x in a.args[1:]]
        self.kwparam = a.kwarg.arg if a.kwarg else None
        if self.kwparam:
            self.params.append(self.kwparam)
        self.vars = list(self.params)
        self.defaults = [self.expr(d) for d in a.defaults]
        self.fresh = {}
        self.loops = []
        self.conds = {}
        body = strip_doc(fn.body)
        self._collect(body)
        self.body = self.block(body)

    def fail(self, what, n=None):
        raise ExtractError('%s: %s%s' % (self.name, what, (': ' + ast.unparse(n).split('\n')[0]) if n is not None else ''))

    # ---- names ---------------------------------------------------------------------------
    def _collect(self, stmts):
        m = self
        bindings = {}      # name -> list of (lineno, is `{}`)
        aliases = []       # (lineno, target, source, in_loop)
        setitems = []      # (lineno, name)

        def bind(name, lineno, fresh=False):
            if name == m.me:
                m.fail('%s is rebound' % m.me)
            bindings.setdefault(name, []).append((lineno, fresh))
            if name not in m.vars:
                m.vars.append(name)

        class V(ast.NodeVisitor):
            depth = 0

            def visit_Assign(s, n):
                if len(n.targets) != 1:
                    m.fail('chained assignment', n)
                t = n.targets[0]
                if isinstance(t, ast.Name):
                    bind(t.id, n.lineno, isinstance(n.value, ast.Dict) and not n.value.keys)
                    if isinstance(n.value, ast.Name):
                        aliases.append((n.lineno, t.id, n.value.id, s.depth > 0))
                elif isinstance(t, ast.Subscript) and isinstance(t.value, ast.Name):
                    setitems.append((n.lineno, t.value.id))
                elif isinstance(t, (ast.Tuple, ast.List, ast.Starred)):
                    m.fail('unpacking assignment', n)
                s.generic_visit(n)

            def visit_AugAssign(s, n):
                m.fail('augmented assignment', n)

            visit_AnnAssign = visit_AugAssign

            def visit_For(s, n):
                ts = n.target.elts if isinstance(n.target, ast.Tuple) else [n.target]
                for t in ts:
                    if not isinstance(t, ast.Name):
                        m.fail('loop target outside the fragment', n)
                    bind(t.id, n.lineno)
                s.depth += 1
                s.generic_visit(n)
                s.depth -= 1

            def visit_While(s, n):
                s.depth += 1
                s.generic_visit(n)
                s.depth -= 1

            def visit_FunctionDef(s, n):
                m.fail('nested function')

            visit_Lambda = visit_FunctionDef

            def visit_ListComp(s, n):
                m.fail('comprehension / generator expression', n)

            visit_GeneratorExp = visit_SetComp = visit_DictComp = visit_ListComp

            def visit_NamedExpr(s, n):
                m.fail('walrus')

            def visit_With(s, n):
                m.fail('with statement')

            def visit_Global(s, n):
                m.fail('global')

            visit_Nonlocal = visit_Global
            visit_Yield = visit_YieldFrom = visit_Await = visit_Global

            def visit_Break(s, n):
                m.fail('break / continue')

            visit_Continue = visit_Break

            def visit_Delete(s, n):
                m.fail('del statement', n)

            def visit_ImportFrom(s, n):
                m.fail('import')

            visit_Import = visit_ImportFrom

            def visit_ExceptHandler(s, n):
                if n.name:
                    m.fail('except … as name')
                s.generic_visit(n)

        v = V()
        for st in stmts:
            v.visit(st)
        for name, bs in bindings.items():
            if all(f for (_, f) in bs) and name not in m.params:
                m.fresh[name] = True
        for (ln, name) in setitems:
            if not m.fresh.get(name):
                m.fail('item assignment to %s, which is not a local bound only by `%s = {}`' % (name, name))
        for (ln, tgt, src, in_loop) in aliases:
            if m.fresh.get(src):
                if in_loop or any(l2 > ln and nm == src for (l2, nm) in setitems):
                    m.fail('dict %s is changed after it was aliased as %s' % (src, tgt))

    def var(self, name):
        if name in self.vars:
            return self.vars.index(name)
        self.fail('name %s is not a parameter or local' % name)

    def temp(self):
        self.vars.append('<tmp%d>' % len(self.vars))
        return len(self.vars) - 1

    # ---- expressions ---------------------------------------------------------------------
    def const(self, n):
        if isinstance(n, ast.Constant):
            v = n.value
            if v is None:
                return '.none'
            if v is True or v is False:
                return '(.bool %s)' % ('true' if v else 'false')
            if isinstance(v, int) and v >= 0:
                return '(.nat %d)' % v
            if isinstance(v, str):
                return '(.str %s)' % lean_str(v)
        self.fail('constant outside the fragment', n)

    def is_pure_call(self, n):
        """calls that are expressions of the fragment"""
        if not isinstance(n, ast.Call):
            return False
        f = n.func
        if isinstance(f, ast.Name) and f.id in ('list', 'isinstance', 'hasattr'):
            return True
        if isinstance(f, ast.Attribute) and f.attr == 'items' and not n.args and not n.keywords:
            return True
        return False

    def exprs(self, ns):
        out = '.nil'
        for e in reversed([self.expr(a) for a in ns]):
            out = '(.cons %s %s)' % (e, out)
        return out

    def expr(self, n):
        if isinstance(n, ast.Name):
            if n.id == self.me:
                return '.self'
            if n.id in self.vars:
                return '(.var %d)' % self.var(n.id)
            self.fail('unknown name %s' % n.id)
        if isinstance(n, ast.Constant):
            return '(.const %s)' % self.const(n)
        if isinstance(n, ast.Attribute):
            root, path = _attr_chain(n)
            if isinstance(root, ast.Name) and root.id in MODULES and root.id not in self.vars:
                return '(.global %s)' % lean_str('.'.join([root.id] + path))
            return '(.attrOf %s %s)' % (self.expr(root), _strs(path))
        if isinstance(n, ast.Tuple) and isinstance(n.ctx, ast.Load) and len(n.elts) == 2:
            return '(.pair %s %s)' % (self.expr(n.elts[0]), self.expr(n.elts[1]))
        if isinstance(n, ast.Tuple) and isinstance(n.ctx, ast.Load) and len(n.elts) == 1:
            return '(.tuple1 %s)' % self.expr(n.elts[0])
        if isinstance(n, ast.List) and not n.elts:
            return '.emptyList'
        if isinstance(n, ast.Dict) and not n.keys:
            return '.emptyDict'
        if isinstance(n, ast.Subscript) and not isinstance(n.slice, (ast.Slice, ast.Tuple)):
            return '(.subscript %s %s)' % (self.expr(n.value), self.expr(n.slice))
        if isinstance(n, ast.Call) and not any(isinstance(a, ast.Starred) for a in n.args):
            f = n.func
            if isinstance(f, ast.Name) and f.id == 'list' and len(n.args) == 1 and not n.keywords:
                return '(.listOf %s)' % self.expr(n.args[0])
            if isinstance(f, ast.Attribute) and f.attr == 'items' and not n.args and not n.keywords:
                return '(.items %s)' % self.expr(f.value)
            self.fail('a call must be a statement of its own', n)
        self.fail('expression outside the fragment', n)

    def cond(self, n):
        if isinstance(n, ast.UnaryOp) and isinstance(n.op, ast.Not):
            return '(.not %s)' % self.cond(n.operand)
        if isinstance(n, ast.BoolOp):
            op = 'and' if isinstance(n.op, ast.And) else 'or'
            parts = [self.cond(v) for v in n.values]
            out = parts[-1]
            for p in reversed(parts[:-1]):
                out = '(.%s %s %s)' % (op, p, out)
            return out
        if isinstance(n, ast.Compare):
            if len(n.ops) != 1:
                self.fail('chained comparison', n)
            op, rhs = n.ops[0], n.comparators[0]
            if isinstance(op, ast.Is):
                if _is_none(rhs):
                    return '(.isNone %s)' % self.expr(n.left)
                return '(.is %s %s)' % (self.expr(n.left), self.expr(rhs))
            if isinstance(op, ast.IsNot):
                if _is_none(rhs):
                    return '(.isNotNone %s)' % self.expr(n.left)
                return '(.not (.is %s %s))' % (self.expr(n.left), self.expr(rhs))
            if isinstance(op, ast.Eq):
                return '(.eq %s %s)' % (self.expr(n.left), self.expr(rhs))
            if isinstance(op, ast.NotEq):
                return '(.ne %s %s)' % (self.expr(n.left), self.expr(rhs))
            if isinstance(op, ast.In):
                return '(.inDict %s %s)' % (self.expr(n.left), self.expr(rhs))
            if isinstance(op, ast.NotIn):
                return '(.not (.inDict %s %s))' % (self.expr(n.left), self.expr(rhs))
            self.fail('comparison outside the fragment', n)
        if isinstance(n, ast.Call) and isinstance(n.func, ast.Name) and n.func.id == 'isinstance' \
                and len(n.args) == 2 and not n.keywords:
            root, path = _attr_chain(n.args[1])
            if isinstance(root, ast.Name) and root.id not in self.vars:
                return '(.isinstance %s %s)' % (self.expr(n.args[0]), lean_str('.'.join([root.id] + path)))
        if isinstance(n, ast.Call) and isinstance(n.func, ast.Name) and n.func.id == 'hasattr' \
                and len(n.args) == 2 and not n.keywords:
            return '(.hasattr %s %s)' % (self.expr(n.args[0]), self.expr(n.args[1]))
        return '(.truthy %s)' % self.expr(n)

    # ---- statements ----------------------------------------------------------------------
    def _is_super(self, f):
        return (isinstance(f, ast.Attribute) and isinstance(f.value, ast.Call) and isinstance(f.value.func, ast.Name)
                and f.value.func.id == 'super')

    def call_stmt(self, target, c):
        """an effectful call `[target =] c`; target: 'none' or '(some i)'"""
        f = c.func
        if any(isinstance(a, ast.Starred) for a in c.args):
            self.fail('call with * outside the fragment', c)
        stars = [k.value for k in c.keywords if k.arg is None]
        kws = [k for k in c.keywords if k.arg is not None]
        if len(stars) > 1 or (stars and c.keywords[-1].arg is not None):
            self.fail('** must be the last argument, once', c)
        star = 'none'
        if stars:
            if not isinstance(stars[0], ast.Name):
                self.fail('** of something that is not a local', c)
            star = '(some %s)' % self.expr(stars[0])
        kwn = _strs([k.arg for k in kws])
        kwv = self.exprs([k.value for k in kws])
        if self._is_super(f):
            sargs = f.value.args
            if f.value.keywords or [ast.unparse(a) for a in sargs] != [CLASS, self.me]:
                self.fail('super() of something else', c)
            return '(.superCall %s %s %s %s %s %s)' % (target, lean_str(f.attr), self.exprs(c.args), kwn, kwv, star)
        if isinstance(f, ast.Attribute):
            return '(.call %s %s %s %s %s %s %s)' % (target, self.expr(f.value), lean_str(f.attr), self.exprs(c.args),
                                                     kwn, kwv, star)
        if isinstance(f, ast.Name) and f.id in self.vars and not stars:
            return '(.callFn %s %s %s %s %s)' % (target, self.expr(f), self.exprs(c.args), kwn, kwv)
        self.fail('call outside the fragment', c)

    def hoist(self, n):
        """-> (statements that run first, pure expression) for `CALL` / `list(CALL)` / a pure expression"""
        if isinstance(n, ast.Call) and not self.is_pure_call(n):
            t = self.temp()
            return [self.call_stmt('(some %d)' % t, n)], '(.var %d)' % t
        if isinstance(n, ast.Call) and isinstance(n.func, ast.Name) and n.func.id == 'list' and len(n.args) == 1 \
                and not n.keywords and isinstance(n.args[0], ast.Call) and not self.is_pure_call(n.args[0]):
            pre, e = self.hoist(n.args[0])
            return pre, '(.listOf %s)' % e
        return [], self.expr(n)

    def loop(self, body):
        idx = len(self.loops)
        self.loops.append(None)
        self.loops[idx] = self.block(body)
        return '%s_loop%d' % (lean_name(self.name), idx)

    def _pure_msg(self, n):
        if isinstance(n, (ast.Constant, ast.Name)):
            return True
        if isinstance(n, ast.Attribute):
            return self._pure_msg(n.value)
        if isinstance(n, ast.BinOp) and isinstance(n.op, (ast.Mod, ast.Add)):
            return self._pure_msg(n.left) and self._pure_msg(n.right)
        if isinstance(n, ast.Tuple):
            return all(self._pure_msg(e) for e in n.elts)
        return False

    def _body_changes(self, body, name):
        for sub in body:
            for x in ast.walk(sub):
                if isinstance(x, ast.Name) and x.id == name and isinstance(x.ctx, (ast.Store, ast.Del)):
                    return True
                if isinstance(x, ast.Subscript) and isinstance(x.ctx, (ast.Store, ast.Del)) \
                        and isinstance(x.value, ast.Name) and x.value.id == name:
                    return True
                if isinstance(x, ast.Call) and isinstance(x.func, ast.Attribute) \
                        and isinstance(x.func.value, ast.Name) and x.func.value.id == name \
                        and x.func.attr != 'items':
                    return True
        return False

    def _body_has_effects(self, body):
        for sub in body:
            for x in ast.walk(sub):
                if isinstance(x, ast.Call) and not self.is_pure_call(x) and not (
                        isinstance(x.func, ast.Name) and x.func.id in EXC_CLS):
                    return True
                if isinstance(x, ast.Attribute) and isinstance(x.ctx, (ast.Store, ast.Del)):
                    return True
        return False

    def stmt(self, n):
        """-> list of translated statements"""
        if isinstance(n, ast.Pass):
            return ['.pass']
        if isinstance(n, ast.Return):
            if n.value is None or _is_none(n.value):
                return ['.retNone']
            pre, e = self.hoist(n.value)
            return pre + ['(.ret %s)' % e]
        if isinstance(n, ast.Raise):
            if n.exc is None and n.cause is None:
                return ['.reraise']
            if n.cause is None and isinstance(n.exc, ast.Call) and isinstance(n.exc.func, ast.Name) \
                    and n.exc.func.id in EXC_CLS and not n.exc.keywords and all(self._pure_msg(a) for a in n.exc.args):
                return ['(.raise %s)' % EXC_CLS[n.exc.func.id]]
            self.fail('raise outside the fragment', n)
        if isinstance(n, ast.If):
            return ['(.ite %s %s %s)' % (self.cond(n.test), self.block(n.body), self.block(n.orelse))]
        if isinstance(n, ast.Assign) and len(n.targets) == 1:
            t, v = n.targets[0], n.value
            if isinstance(t, ast.Name):
                if isinstance(v, ast.Call) and not self.is_pure_call(v):
                    return [self.call_stmt('(some %d)' % self.var(t.id), v)]
                return ['(.assign %d %s)' % (self.var(t.id), self.expr(v))]
            if isinstance(t, ast.Attribute):
                root, path = _attr_chain(t)
                if not (isinstance(root, ast.Name) and (root.id == self.me or root.id in self.vars)):
                    self.fail('attribute assignment outside the fragment', n)
                pre, e = self.hoist(v)
                return pre + ['(.setAttr %s %s %s)' % (self.expr(root), _strs(path), e)]
            if isinstance(t, ast.Subscript) and isinstance(t.value, ast.Name) \
                    and not isinstance(t.slice, (ast.Slice, ast.Tuple)):
                return ['(.setItem %d %s %s)' % (self.var(t.value.id), self.expr(t.slice), self.expr(v))]
        if isinstance(n, ast.Expr) and isinstance(n.value, ast.Call):
            c, f = n.value, n.value.func
            if isinstance(f, ast.Attribute) and isinstance(f.value, ast.Name) and f.value.id in self.vars \
                    and f.attr in ('append', 'extend', 'update', 'pop', 'clear', 'remove', 'insert', 'setdefault',
                                   'sort', 'reverse', 'popitem', 'add', 'discard'):
                self.fail('mutation of a container outside the fragment', n)
            if self.is_pure_call(c):
                self.fail('pure call used as a statement', n)
            return [self.call_stmt('none', c)]
        if isinstance(n, ast.For) and not n.orelse:
            it, t = n.iter, n.target
            if isinstance(it, ast.Name):
                if self._body_changes(n.body, it.id):
                    self.fail('loop over %s changes it' % it.id)
            elif isinstance(it, ast.Call) and isinstance(it.func, ast.Name) and it.func.id == 'list':
                pass
            elif isinstance(it, ast.Call) and isinstance(it.func, ast.Attribute) and it.func.attr == 'items' \
                    and isinstance(it.func.value, ast.Name):
                if self._body_changes(n.body, it.func.value.id):
                    self.fail('loop over %s.items() changes it' % it.func.value.id)
            elif isinstance(it, ast.Attribute):
                if self._body_has_effects(n.body):
                    self.fail('loop over an attribute whose body calls something', n)
            else:
                self.fail('loop over something that is not a local, list(…), x.items() or an attribute', n)
            pre, ite = self.hoist(it)
            if isinstance(t, ast.Name):
                return pre + ['(.for1 %d %s %s)' % (self.var(t.id), ite, self.loop(n.body))]
            if isinstance(t, ast.Tuple) and len(t.elts) == 2 and t.elts[0].id != t.elts[1].id:
                return pre + ['(.for2 %d %d %s %s)' % (self.var(t.elts[0].id), self.var(t.elts[1].id), ite,
                                                      self.loop(n.body))]
        if isinstance(n, ast.While) and not n.orelse:
            c = self.cond(n.test)
            name = self.loop(n.body)
            self.conds[name] = c
            return ['(.while %s_cond %s)' % (name, name)]
        if isinstance(n, ast.Try) and not n.finalbody and len(n.handlers) == 1:
            h = n.handlers[0]
            if not isinstance(h.type, ast.Name) or h.type.id not in EXC_PAT or h.name:
                self.fail('only one `except <known class>:` is in the fragment', n)
            return ['(.tryExcept %s %s %s %s)' % (self.block(n.body), EXC_PAT[h.type.id], self.block(h.body),
                                                  self.block(n.orelse))]
        self.fail('statement outside the fragment', n)

    def block(self, stmts):
        parts = []
        for s in stmts:
            parts += self.stmt(s)
        out = '.nil'
        for p in reversed(parts):
            out = '(.cons %s\n    %s)' % (p, out)
        return out


def translate(repo):
    tree = parse(repo, REL)
    cls = find_class(tree, CLASS)
    for s in cls.body:
        if isinstance(s, ast.FunctionDef) and s.name in ('__setattr__', '__getattr__', '__getattribute__', '__new__',
                                                         '__init__'):
            raise ExtractError('%s defines %s' % (CLASS, s.name))
    if [ast.unparse(b) for b in cls.bases] != ['SQLObject']:
        raise ExtractError('%s no longer derives from SQLObject alone' % CLASS)
    return cls, [(name, Method(find_func(cls, name))) for name in METHODS]


def extract(repo):
    cls, methods = translate(repo)
    lines = [HEADER % 'pyinherit', 'import SqlObjVerif.Model.PyInherit', '',
             'namespace SqlObjVerif.PyInh.Extracted', 'open SqlObjVerif.PyInh', '']
    for name, m in methods:
        ln = lean_name(name)
        for i in reversed(range(len(m.loops))):
            lines += ['/-- body of loop %d of `%s.%s` -/' % (i, cls.name, name),
                      'def %s_loop%d : Block :=\n  %s' % (ln, i, m.loops[i]), '']
            if '%s_loop%d' % (ln, i) in m.conds:
                lines += ['/-- condition of that `while` loop -/',
                          'def %s_loop%d_cond : Cond :=\n  %s' % (ln, i, m.conds['%s_loop%d' % (ln, i)]), '']
        lines += ['/-- `%s.%s(%s)`, translated; locals: %s -/'
                  % (cls.name, name, ', '.join([m.me] + m.params),
                     ', '.join('%s=%d' % (v, i) for i, v in enumerate(m.vars)) or '-'),
                  'def %sProg : Block :=\n  %s' % (ln, m.body),
                  'def %s_nargs : Nat := %d' % (ln, len(m.params)),
                  'def %s_nlocals : Nat := %d' % (ln, len(m.vars) - len(m.params)),
                  'def %s_defaults : List Expr := [%s]' % (ln, ', '.join(m.defaults)), '']
    lines.append('end SqlObjVerif.PyInh.Extracted')
    return '\n'.join(lines) + '\n'
