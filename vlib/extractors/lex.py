"""Literal pipeline data: `sqlStringReplace` and its order, the dialect tuples of
`StringLikeConverter`, the `E''` rule (also of `quote_str`), bool / None / sequence literals, the
date / time format strings, `_quote_like_special`'s chain and escape choice, the STARTSWITH /
ENDSWITH / CONTAINSSTRING wrappers, `LIKE.__sqlrepr__`'s formats and the statement formats of
`dbconnection.py`  ->  `SqlObjVerif.Lex.Extracted`."""
import ast
from . import ExtractError, parse, find_class, find_func, strip_doc, lean_nat_list, HEADER

TARGET = 'Lex'

DIALECTS = ['sqlite', 'mysql', 'postgres', 'firebird', 'sybase', 'maxdb', 'mssql']


def _s(node, what):
    if isinstance(node, ast.Constant) and isinstance(node.value, str):
        return node.value
    raise ExtractError('%s: expected a string constant, got %s' % (what, ast.unparse(node)))


def _dialect(name, what):
    if name not in DIALECTS:
        raise ExtractError('%s: unknown dialect %r' % (what, name))
    return '.' + name


def _dialects(node, what):
    if not isinstance(node, (ast.Tuple, ast.List, ast.Set)):
        raise ExtractError('%s: expected a tuple of dialect names, got %s' % (what, ast.unparse(node)))
    return '[' + ', '.join(_dialect(_s(e, what), what) for e in node.elts) + ']'


def _db_test(test, what):
    """`db == 'x'` or `db in (...)` -> Lean list of dialects"""
    if isinstance(test, ast.Compare) and len(test.ops) == 1 and isinstance(test.left, ast.Name) \
            and test.left.id == 'db':
        if isinstance(test.ops[0], ast.Eq):
            return '[' + _dialect(_s(test.comparators[0], what), what) + ']'
        if isinstance(test.ops[0], ast.In):
            return _dialects(test.comparators[0], what)
    raise ExtractError('%s: expected `db == ..` / `db in (..)`, got %s' % (what, ast.unparse(test)))


def _char(s, what):
    if len(s) != 1:
        raise ExtractError('%s: replaced text %r is not a single character' % (what, s))
    return ord(s)


def _module_func(tree, name):
    for node in tree.body:
        if isinstance(node, ast.FunctionDef) and node.name == name:
            return node
    for node in ast.walk(tree):
        if isinstance(node, ast.FunctionDef) and node.name == name:
            return node
    raise ExtractError('function %s not found' % name)


def _fmt_pieces(fmt, what, fields=None):
    """python %-format -> Lean `List FmtPiece`; `fields` = indices of the %d arguments."""
    out = []
    lit = ''
    i = 0
    k = 0
    n = len(fmt)
    while i < n:
        ch = fmt[i]
        if ch != '%':
            lit += ch
            i += 1
            continue
        j = i + 1
        if j < n and fmt[j] == '%':
            lit += '%'
            i = j + 1
            continue
        spec = ''
        while j < n and fmt[j] in '0123456789':
            spec += fmt[j]
            j += 1
        if j >= n:
            raise ExtractError('%s: dangling %% in %r' % (what, fmt))
        conv = fmt[j]
        if lit:
            out.append('.lit %s' % lean_nat_list(lit))
            lit = ''
        if conv == 's' and spec == '':
            out.append('.arg')
        elif conv in 'di' and (spec == '' or (spec[0] == '0' and len(spec) > 1)):
            if fields is None or k >= len(fields):
                raise ExtractError('%s: no argument for %%%s%s in %r' % (what, spec, conv, fmt))
            out.append('.num %d %d' % (int(spec[1:]) if spec else 0, fields[k]))
            k += 1
        else:
            raise ExtractError('%s: unsupported conversion %%%s%s in %r' % (what, spec, conv, fmt))
        i = j + 1
    if lit:
        out.append('.lit %s' % lean_nat_list(lit))
    if fields is not None and k != len(fields):
        raise ExtractError('%s: %d arguments for %r' % (what, len(fields), fmt))
    return '[' + ', '.join(out) + ']'


def _e_rule(stmts, var, what):
    """`if (db == 'postgres') and ('\\\\' in var): return "E'%s'" % var` ; `return "'%s'" % var`"""
    if len(stmts) != 2 or not isinstance(stmts[0], ast.If) or stmts[0].orelse or len(stmts[0].body) != 1:
        raise ExtractError('%s: expected `if ..: return ..` + `return ..`' % what)
    test = stmts[0].test
    if not (isinstance(test, ast.BoolOp) and isinstance(test.op, ast.And) and len(test.values) == 2):
        raise ExtractError('%s: E-prefix condition is not `a and b`: %s' % (what, ast.unparse(test)))
    dl = _db_test(test.values[0], what)
    t2 = test.values[1]
    if not (isinstance(t2, ast.Compare) and len(t2.ops) == 1 and isinstance(t2.ops[0], ast.In)
            and isinstance(t2.comparators[0], ast.Name) and t2.comparators[0].id == var):
        raise ExtractError('%s: E-prefix condition is not `<char> in %s`: %s' % (what, var, ast.unparse(t2)))
    trig = _char(_s(t2.left, what), what)

    def ret(st):
        if not (isinstance(st, ast.Return) and isinstance(st.value, ast.BinOp) and isinstance(st.value.op, ast.Mod)
                and isinstance(st.value.right, ast.Name) and st.value.right.id == var):
            raise ExtractError('%s: expected `return "<fmt>" %% %s`: %s' % (what, var, ast.unparse(st)))
        fmt = _s(st.value.left, what)
        if fmt.count('%s') != 1 or fmt.count('%') != 1:
            raise ExtractError('%s: format %r' % (what, fmt))
        a, b = fmt.split('%s')
        return lean_nat_list(a), lean_nat_list(b)
    eo, ec = ret(stmts[0].body[0])
    po, pc = ret(stmts[1])
    return dl, trig, eo, ec, po, pc


def _registered(tree, typ):
    for node in tree.body:
        if isinstance(node, ast.Expr) and isinstance(node.value, ast.Call) \
                and ast.unparse(node.value.func) == 'registerConverter' \
                and ast.unparse(node.value.args[0]) == typ:
            return ast.unparse(node.value.args[1])
    raise ExtractError('no registerConverter(%s, ..)' % typ)


def _const_return(stmts, what):
    if len(stmts) == 1 and isinstance(stmts[0], ast.Return):
        return _s(stmts[0].value, what)
    raise ExtractError('%s: expected a single `return "<const>"`' % what)


def _if_value(stmts, what):
    """`if value: return A else: return B` -> (A, B)"""
    if len(stmts) == 1 and isinstance(stmts[0], ast.If) and ast.unparse(stmts[0].test) == 'value':
        return _const_return(stmts[0].body, what), _const_return(stmts[0].orelse, what)
    raise ExtractError('%s: expected `if value: return .. else: return ..`' % what)


def _time_fmt(tree, typ, canon, what):
    fn = _module_func(tree, _registered(tree, typ))
    body = strip_doc(fn.body)
    if not (len(body) == 1 and isinstance(body[0], ast.Return) and isinstance(body[0].value, ast.BinOp)
            and isinstance(body[0].value.op, ast.Mod) and isinstance(body[0].value.right, ast.Tuple)):
        raise ExtractError('%s: expected `return "<fmt>" %% (value.a, ...)`' % what)
    fmt = _s(body[0].value.left, what)
    fields = []
    for e in body[0].value.right.elts:
        if not (isinstance(e, ast.Attribute) and isinstance(e.value, ast.Name) and e.value.id == 'value'
                and e.attr in canon):
            raise ExtractError('%s: unexpected format argument %s' % (what, ast.unparse(e)))
        fields.append(canon.index(e.attr))
    return fn.name, _fmt_pieces(fmt, what, fields)


def _converters(repo, L):
    tree = parse(repo, 'sqlobject/converters.py')
    # --- sqlStringReplace
    tbl = None
    for node in tree.body:
        if isinstance(node, ast.Assign) and len(node.targets) == 1 \
                and ast.unparse(node.targets[0]) == 'sqlStringReplace':
            tbl = node.value
    if not isinstance(tbl, ast.List):
        raise ExtractError('sqlStringReplace is not a list literal')
    rows = []
    for e in tbl.elts:
        if not (isinstance(e, ast.Tuple) and len(e.elts) == 2):
            raise ExtractError('sqlStringReplace row is not a pair: %s' % ast.unparse(e))
        rows.append('(%d, %s)' % (_char(_s(e.elts[0], 'sqlStringReplace'), 'sqlStringReplace'),
                                  lean_nat_list(_s(e.elts[1], 'sqlStringReplace'))))
    L.append('/-- `converters.sqlStringReplace`, in source order (single-character `str.replace` passes) -/')
    L.append('def sqlStringReplace : List (Nat × Str) := [\n  %s]' % ',\n  '.join(rows))
    L.append('')
    # --- StringLikeConverter
    fn = _module_func(tree, 'StringLikeConverter')
    chain = None
    idx = None
    for i, st in enumerate(fn.body):
        if isinstance(st, ast.If) and isinstance(st.test, ast.Compare) and ast.unparse(st.test).startswith('db in'):
            chain, idx = st, i
            break
    if chain is None:
        raise ExtractError('StringLikeConverter: dialect chain not found')
    branches = []
    node = chain
    while True:
        dl = _db_test(node.test, 'StringLikeConverter')
        if len(node.body) != 1:
            raise ExtractError('StringLikeConverter: branch body has %d statements' % len(node.body))
        b = node.body[0]
        if isinstance(b, ast.For):
            if not (ast.unparse(b.target) in ('orig, repl', '(orig, repl)') and ast.unparse(b.iter) == 'sqlStringReplace'
                    and len(b.body) == 1 and ast.unparse(b.body[0]) == 'value = value.replace(orig, repl)'
                    and not b.orelse):
                raise ExtractError('StringLikeConverter: unexpected loop %s' % ast.unparse(b))
            act = '.table'
        elif isinstance(b, ast.Assign) and ast.unparse(b.targets[0]) == 'value' \
                and isinstance(b.value, ast.Call) and ast.unparse(b.value.func) == 'value.replace' \
                and len(b.value.args) == 2 and not b.value.keywords:
            act = '.single %d %s' % (_char(_s(b.value.args[0], 'StringLikeConverter'), 'StringLikeConverter'),
                                     lean_nat_list(_s(b.value.args[1], 'StringLikeConverter')))
        else:
            raise ExtractError('StringLikeConverter: unexpected branch body %s' % ast.unparse(b))
        branches.append('(%s, %s)' % (dl, act))
        if len(node.orelse) == 1 and isinstance(node.orelse[0], ast.If):
            node = node.orelse[0]
            continue
        if not (len(node.orelse) == 1 and isinstance(node.orelse[0], ast.Assert)):
            raise ExtractError('StringLikeConverter: the chain does not end in `else: assert`')
        break
    L.append('/-- the `if db in (...)` chain of `StringLikeConverter` (an unlisted dialect asserts) -/')
    L.append('def stringBranches : List (List Dialect × EscAction) := [\n  %s]' % ',\n  '.join(branches))
    L.append('')
    dl, trig, eo, ec, po, pc = _e_rule(fn.body[idx + 1:], 'value', 'StringLikeConverter')
    L.append('/-- `if (db == ..) and (<char> in value): return "E\'%s\'" % value` / `return "\'%s\'" % value` -/')
    L.append('def ePrefixDialects : List Dialect := %s' % dl)
    L.append('def ePrefixTrigger : Nat := %d' % trig)
    L.append('def eOpen : Str := %s\ndef eClose : Str := %s\ndef plainOpen : Str := %s\ndef plainClose : Str := %s'
             % (eo, ec, po, pc))
    L.append('')
    # --- quote_str
    fn = _module_func(tree, 'quote_str')
    dl, trig, eo, ec, po, pc = _e_rule(strip_doc(fn.body), 's', 'quote_str')
    L.append('/-- `quote_str(s, db)` -/')
    L.append('def qsDialects : List Dialect := %s' % dl)
    L.append('def qsTrigger : Nat := %d' % trig)
    L.append('def qsEOpen : Str := %s\ndef qsEClose : Str := %s\ndef qsOpen : Str := %s\ndef qsClose : Str := %s'
             % (eo, ec, po, pc))
    L.append('')
    # --- BoolConverter
    fn = _module_func(tree, _registered(tree, 'bool'))
    body = strip_doc(fn.body)
    if not (len(body) == 1 and isinstance(body[0], ast.If)):
        raise ExtractError('BoolConverter: expected one if')
    dl = _db_test(body[0].test, 'BoolConverter')
    st, sf = _if_value(body[0].body, 'BoolConverter')
    ot, of = _if_value(body[0].orelse, 'BoolConverter')
    L.append('/-- `BoolConverter` -/')
    L.append('def boolSpecialDialects : List Dialect := %s' % dl)
    L.append('def boolSpecialTrue : Str := %s\ndef boolSpecialFalse : Str := %s\ndef boolTrue : Str := %s\ndef boolFalse : Str := %s'
             % tuple(lean_nat_list(x) for x in (st, sf, ot, of)))
    L.append('')
    # --- None
    fn = _module_func(tree, _registered(tree, 'NoneType'))
    L.append('/-- `NoneConverter` -/')
    L.append('def noneLit : Str := %s' % lean_nat_list(_const_return(strip_doc(fn.body), 'NoneConverter')))
    L.append('')
    # --- int: hand-modelled `repr(int(value))`; only the shape is checked
    fn = _module_func(tree, _registered(tree, 'int'))
    if ast.unparse(strip_doc(fn.body)[0]) != 'return repr(int(value))':
        raise ExtractError('IntConverter is no longer `return repr(int(value))`')
    # --- sequences
    names = set(_registered(tree, t) for t in ('tuple', 'list', 'set', 'frozenset'))
    if len(names) != 1:
        raise ExtractError('tuple/list/set use different converters: %s' % names)
    fn = _module_func(tree, names.pop())
    body = strip_doc(fn.body)
    ok = (len(body) == 1 and isinstance(body[0], ast.Return) and isinstance(body[0].value, ast.BinOp)
          and isinstance(body[0].value.op, ast.Mod) and isinstance(body[0].value.right, ast.Call)
          and isinstance(body[0].value.right.func, ast.Attribute) and body[0].value.right.func.attr == 'join'
          and ast.unparse(body[0].value.right.args[0]) == '[sqlrepr(v, db) for v in value]')
    if not ok:
        raise ExtractError('SequenceConverter: unexpected body %s' % ast.unparse(body[0]))
    fmt = _s(body[0].value.left, 'SequenceConverter')
    if fmt.count('%s') != 1 or fmt.count('%') != 1:
        raise ExtractError('SequenceConverter: format %r' % fmt)
    a, b = fmt.split('%s')
    sep = _s(body[0].value.right.func.value, 'SequenceConverter')
    L.append('/-- `SequenceConverter`: `"(%s)" % ", ".join([sqlrepr(v, db) for v in value])` -/')
    L.append('def seqOpen : Str := %s\ndef seqClose : Str := %s\ndef seqSep : Str := %s'
             % (lean_nat_list(a), lean_nat_list(b), lean_nat_list(sep)))
    L.append('')
    # --- date / time formats (the registered converters)
    dt = ['year', 'month', 'day', 'hour', 'minute', 'second', 'microsecond']
    for typ, lname, canon in (('datetime.datetime', 'dateTimeFmt', dt), ('datetime.date', 'dateFmt', dt[:3]),
                              ('datetime.time', 'timeFmt', dt[3:])):
        name, pieces = _time_fmt(tree, typ, canon, typ)
        L.append('/-- `%s`, registered for `%s`; `.num width field` (fields: %s) -/' % (name, typ, ', '.join(canon)))
        L.append('def %s : List FmtPiece := %s' % (lname, pieces))
    L.append('')


def _sqlbuilder(repo, L):
    tree = parse(repo, 'sqlobject/sqlbuilder.py')
    # --- _quote_like_special
    fn = _module_func(tree, '_quote_like_special')
    body = strip_doc(fn.body)
    if not (len(body) == 3 and isinstance(body[0], ast.If) and len(body[0].body) == 1 and len(body[0].orelse) == 1
            and ast.unparse(body[0].body[0].targets[0]) == 'escape'
            and ast.unparse(body[0].orelse[0].targets[0]) == 'escape'
            and isinstance(body[1], ast.Assign) and ast.unparse(body[1].targets[0]) == 's'
            and ast.unparse(body[2]) == 'return s'):
        raise ExtractError('_quote_like_special: unexpected shape')
    dl = _db_test(body[0].test, '_quote_like_special')
    esc_special = _s(body[0].body[0].value, '_quote_like_special')
    esc_default = _s(body[0].orelse[0].value, '_quote_like_special')
    chain = []
    node = body[1].value
    while isinstance(node, ast.Call):
        if not (isinstance(node.func, ast.Attribute) and node.func.attr == 'replace' and len(node.args) == 2):
            raise ExtractError('_quote_like_special: not a replace chain: %s' % ast.unparse(node))
        o = _char(_s(node.args[0], '_quote_like_special'), '_quote_like_special')
        r = node.args[1]
        if isinstance(r, ast.BinOp) and isinstance(r.op, ast.Add) and isinstance(r.left, ast.Name) \
                and r.left.id == 'escape':
            rr = '.escPlus %s' % lean_nat_list(_s(r.right, '_quote_like_special'))
        else:
            rr = '.lit %s' % lean_nat_list(_s(r, '_quote_like_special'))
        chain.append('(%d, %s)' % (o, rr))
        node = node.func.value
    if not (isinstance(node, ast.Name) and node.id == 's'):
        raise ExtractError('_quote_like_special: the chain does not start at `s`')
    chain.reverse()
    L.append('/-- `_quote_like_special(s, db)`: escape choice and the `.replace` chain in application order -/')
    L.append('def likeEscSpecialDialects : List Dialect := %s' % dl)
    L.append('def likeEscSpecial : Str := %s\ndef likeEscDefault : Str := %s'
             % (lean_nat_list(esc_special), lean_nat_list(esc_default)))
    L.append('def likeChain : List (Nat × LikeRepl) := [\n  %s]' % ',\n  '.join(chain))
    L.append('')
    # --- STARTSWITH / ENDSWITH / CONTAINSSTRING
    for pyname, lname in (('STARTSWITH', 'startswithOp'), ('ENDSWITH', 'endswithOp'), ('CONTAINSSTRING', 'containsOp')):
        fn = _module_func(tree, pyname)
        body = strip_doc(fn.body)
        if not (len(body) == 1 and isinstance(body[0], ast.Return) and isinstance(body[0].value, ast.Call)
                and ast.unparse(body[0].value.func) == 'LIKE' and len(body[0].value.args) == 2
                and ast.unparse(body[0].value.args[0]) == 'expr'
                and [k.arg for k in body[0].value.keywords] == ['escape']):
            raise ExtractError('%s: unexpected body %s' % (pyname, ast.unparse(body[0])))
        esc = _s(body[0].value.keywords[0].value, pyname)
        pre, post = '', ''
        node = body[0].value.args[1]
        core = '_LikeQuoted(pattern)'
        # (pre + core) + post | pre + core | core + post | core
        if isinstance(node, ast.BinOp) and isinstance(node.op, ast.Add) and ast.unparse(node.right) != core \
                and isinstance(node.right, ast.Constant):
            post = _s(node.right, pyname)
            node = node.left
        if isinstance(node, ast.BinOp) and isinstance(node.op, ast.Add) and ast.unparse(node.right) == core:
            pre = _s(node.left, pyname)
            node = node.right
        if ast.unparse(node) != core:
            raise ExtractError('%s: pattern is not [pre +] _LikeQuoted(pattern) [+ post]' % pyname)
        L.append('/-- `%s(expr, pattern)` -/' % pyname)
        L.append('def %s : LikeOp := ⟨%s, %s, %s⟩' % (lname, lean_nat_list(pre), lean_nat_list(post), lean_nat_list(esc)))
    L.append('')
    # --- LIKE.__sqlrepr__
    cls = find_class(tree, 'LIKE')
    op = None
    for st in cls.body:
        if isinstance(st, ast.Assign) and ast.unparse(st.targets[0]) == 'op':
            op = _s(st.value, 'LIKE.op')
    if op is None:
        raise ExtractError('LIKE.op not found')
    fn = find_func(cls, '__sqlrepr__')
    fmts = [n.value for n in ast.walk(fn) if isinstance(n, ast.Constant) and isinstance(n.value, str) and '%s' in n.value]
    src = ast.unparse(fn)
    expect = ("like = '%s %s (%s)' % (sqlrepr(self.expr, db), self.op, sqlrepr(self.string, db))",
              "return '(%s)' % like", "return '(%s ESCAPE %s)' % (like, sqlrepr(escape, db))", 'if escape is None:')
    if len(fmts) != 3:
        raise ExtractError('LIKE.__sqlrepr__: expected three formats, got %r' % fmts)
    for e in expect[3:]:
        if e not in src:
            raise ExtractError('LIKE.__sqlrepr__: `%s` not found' % e)
    args_ok = ('(sqlrepr(self.expr, db), self.op, sqlrepr(self.string, db))' in src
               and '(like, sqlrepr(escape, db))' in src)
    if not args_ok:
        raise ExtractError('LIKE.__sqlrepr__: unexpected format arguments')
    by_n = {f.count('%s'): f for f in fmts}
    if sorted(by_n) != [1, 2, 3]:
        raise ExtractError('LIKE.__sqlrepr__: formats %r' % fmts)
    L.append('/-- `LIKE.__sqlrepr__`: `"%s %s (%s)" % (expr, op, string)`, then without / with `escape` -/')
    L.append('def likeOpName : Str := %s' % lean_nat_list(op))
    L.append('def likeFmt : List FmtPiece := %s' % _fmt_pieces(by_n[3], 'LIKE'))
    L.append('def likeNoEscFmt : List FmtPiece := %s' % _fmt_pieces(by_n[1], 'LIKE'))
    L.append('def likeEscFmt : List FmtPiece := %s' % _fmt_pieces(by_n[2], 'LIKE'))
    L.append('')


def _join_fmt(call, what):
    """`'<sep>'.join([... '<fmt>' % (...) ...])` -> (sep, fmt or None)"""
    if not (isinstance(call, ast.Call) and isinstance(call.func, ast.Attribute) and call.func.attr == 'join'):
        raise ExtractError('%s: expected a join, got %s' % (what, ast.unparse(call)))
    sep = _s(call.func.value, what)
    fmt = None
    for n in ast.walk(call.args[0]):
        if isinstance(n, ast.BinOp) and isinstance(n.op, ast.Mod) and isinstance(n.left, ast.Constant):
            fmt = n.left.value
    return sep, fmt


def _dbconnection(repo, L):
    tree = parse(repo, 'sqlobject/dbconnection.py')
    cls = find_class(tree, 'DBAPI')
    # --- _insertSQL
    fn = find_func(cls, '_insertSQL')
    body = strip_doc(fn.body)
    v = body[0].value if len(body) == 1 and isinstance(body[0], ast.Return) else None
    if not (isinstance(v, ast.BinOp) and isinstance(v.op, ast.Mod) and isinstance(v.right, ast.Tuple)
            and len(v.right.elts) == 3 and ast.unparse(v.right.elts[0]) == 'table'):
        raise ExtractError('_insertSQL: unexpected body')
    s1, f1 = _join_fmt(v.right.elts[1], '_insertSQL')
    s2, f2 = _join_fmt(v.right.elts[2], '_insertSQL')
    if f1 is not None or f2 is not None or ast.unparse(v.right.elts[1].args[0]) != 'names' \
            or ast.unparse(v.right.elts[2].args[0]) != '[self.sqlrepr(v) for v in values]':
        raise ExtractError('_insertSQL: unexpected joins')
    L.append('/-- `DBAPI._insertSQL(table, names, values)` -/')
    L.append('def insertFmt : List FmtPiece := %s' % _fmt_pieces(_s(v.left, '_insertSQL'), '_insertSQL'))
    L.append('def insertNameSep : Str := %s\ndef insertValueSep : Str := %s' % (lean_nat_list(s1), lean_nat_list(s2)))
    L.append('')
    # --- _SO_update
    fn = find_func(cls, '_SO_update')
    body = strip_doc(fn.body)
    call = body[0].value if len(body) == 1 and isinstance(body[0], ast.Expr) else None
    if not (isinstance(call, ast.Call) and ast.unparse(call.func) == 'self.query' and len(call.args) == 1
            and isinstance(call.args[0], ast.BinOp) and isinstance(call.args[0].op, ast.Mod)
            and isinstance(call.args[0].right, ast.Tuple) and len(call.args[0].right.elts) == 4):
        raise ExtractError('_SO_update: unexpected body')
    v = call.args[0]
    e = v.right.elts
    if not (ast.unparse(e[0]) == 'so.sqlmeta.table' and ast.unparse(e[2]) == 'so.sqlmeta.idName'
            and ast.unparse(e[3]) == 'self.sqlrepr(so.id)'):
        raise ExtractError('_SO_update: unexpected arguments')
    sep, f = _join_fmt(e[1], '_SO_update')
    if f is None or '(dbName, self.sqlrepr(value))' not in ast.unparse(e[1]):
        raise ExtractError('_SO_update: unexpected SET list')
    L.append('/-- `DBAPI._SO_update(so, values)` -/')
    L.append('def updateFmt : List FmtPiece := %s' % _fmt_pieces(_s(v.left, '_SO_update'), '_SO_update'))
    L.append('def updateSetFmt : List FmtPiece := %s' % _fmt_pieces(f, '_SO_update'))
    L.append('def updateSetSep : Str := %s' % lean_nat_list(sep))
    L.append('')
    # --- _SO_columnClause
    fn = find_func(cls, '_SO_columnClause')
    ret = fn.body[-1]
    if not (isinstance(ret, ast.Return) and isinstance(ret.value, ast.Call)):
        raise ExtractError('_SO_columnClause: last statement is not `return <sep>.join(..)`')
    sep, f = _join_fmt(ret.value, '_SO_columnClause')
    comp = ret.value.args[0]
    if not (isinstance(comp, ast.ListComp) and isinstance(comp.elt, ast.BinOp) and isinstance(comp.elt.right, ast.Tuple)
            and len(comp.elt.right.elts) == 3 and ast.unparse(comp.elt.right.elts[0]) == 'dbName'
            and ast.unparse(comp.elt.right.elts[2]) == 'self.sqlrepr(value)'
            and isinstance(comp.elt.right.elts[1], ast.IfExp)
            and ast.unparse(comp.elt.right.elts[1].test) == 'value is None'):
        raise ExtractError('_SO_columnClause: unexpected comprehension %s' % ast.unparse(comp))
    mid = comp.elt.right.elts[1]
    L.append('/-- `DBAPI._SO_columnClause`: `sep.join([fmt % (dbName, isOp if value is None else eqOp, literal)])` -/')
    L.append('def clauseFmt : List FmtPiece := %s' % _fmt_pieces(f, '_SO_columnClause'))
    L.append('def clauseSep : Str := %s\ndef clauseIsOp : Str := %s\ndef clauseEqOp : Str := %s'
             % (lean_nat_list(sep), lean_nat_list(_s(mid.body, '_SO_columnClause')),
                lean_nat_list(_s(mid.orelse, '_SO_columnClause'))))
    L.append('')


def extract(repo):
    L = [HEADER % 'lex', 'import SqlObjVerif.Model.LexSyn', '', 'namespace SqlObjVerif.Lex.Extracted', '']
    _converters(repo, L)
    _sqlbuilder(repo, L)
    _dbconnection(repo, L)
    L.append('end SqlObjVerif.Lex.Extracted')
    return '\n'.join(L) + '\n'
