"""TRANSLATOR: `SelectResults.__getitem__` (sqlobject/sresults.py) -> PyMini blocks.

The slice branch and the index branch of `__getitem__` are translated statement by statement
into the deep embedding of `lean/SqlObjVerif/Model/PyMini.lean`.  Any construct outside the
fragment raises ExtractError (the framework then searches for a failing input and reports).
Variable naming convention of the translation:
    value.start -> a     value.stop -> b     value.step -> step     value (index) -> i
    self.ops.get('start', 0) -> s0          self.ops.get('end', None) / self.ops['end'] -> e0
"""
import ast
from . import ExtractError, parse, find_class, find_func, strip_doc, lean_str, HEADER

TARGET = 'GetItem'


def _is(node, src):
    return ast.dump(node) == ast.dump(ast.parse(src, mode='eval').body)


def aexpr(n):
    if isinstance(n, ast.Attribute) and isinstance(n.value, ast.Name) and n.value.id == 'value':
        m = {'start': 'a', 'stop': 'b', 'step': 'step'}
        if n.attr in m:
            return '(.var "%s")' % m[n.attr]
    if isinstance(n, ast.Name):
        if n.id == 'value':
            return '(.var "i")'
        if n.id in ('start', 'end'):
            return '(.var "%s")' % n.id
    if _is(n, "self.ops.get('start', 0)"):
        return '(.var "s0")'
    if _is(n, "self.ops.get('end', None)") or _is(n, "self.ops['end']"):
        return '(.var "e0")'
    if isinstance(n, ast.Constant):
        if n.value is None:
            return '.pyNone'
        if isinstance(n.value, int) and not isinstance(n.value, bool):
            return '(.int (%d))' % n.value
    if isinstance(n, ast.UnaryOp) and isinstance(n.op, ast.USub) and isinstance(n.operand, ast.Constant) \
            and isinstance(n.operand.value, int):
        return '(.int (%d))' % (-n.operand.value)
    if isinstance(n, ast.BinOp) and isinstance(n.op, (ast.Add, ast.Sub)):
        return '(.%s %s %s)' % ('add' if isinstance(n.op, ast.Add) else 'sub', aexpr(n.left), aexpr(n.right))
    raise ExtractError('expression outside the fragment: %s' % ast.unparse(n))


_CMP = {ast.Lt: '.lt', ast.LtE: '.le', ast.Gt: '.gt', ast.GtE: '.ge'}


def cexpr(n):
    if isinstance(n, ast.UnaryOp) and isinstance(n.op, ast.Not):
        return '(.not %s)' % cexpr(n.operand)
    if isinstance(n, ast.BoolOp):
        op = 'and' if isinstance(n.op, ast.And) else 'or'
        parts = [cexpr(v) for v in n.values]
        out = parts[-1]
        for p in reversed(parts[:-1]):
            out = '(.%s %s %s)' % (op, p, out)
        return out
    if isinstance(n, ast.Compare) and len(n.ops) == 1:
        op = n.ops[0]
        rhs = n.comparators[0]
        if isinstance(op, ast.Is) and isinstance(rhs, ast.Constant) and rhs.value is None:
            return '(.isNone %s)' % aexpr(n.left)
        if isinstance(op, ast.IsNot) and isinstance(rhs, ast.Constant) and rhs.value is None:
            return '(.isNotNone %s)' % aexpr(n.left)
        if type(op) in _CMP:
            return '(.cmp %s %s %s)' % (_CMP[type(op)], aexpr(n.left), aexpr(rhs))
        raise ExtractError('comparison outside the fragment: %s' % ast.unparse(n))
    return '(.truthy %s)' % aexpr(n)


def _kw(call, names):
    if call.args or sorted(k.arg for k in call.keywords) != sorted(names):
        raise ExtractError('unexpected arguments: %s' % ast.unparse(call))
    return {k.arg: k.value for k in call.keywords}


def ret(n):
    v = n.value
    if isinstance(v, ast.Name) and v.id == 'self':
        return '.self'
    if isinstance(v, ast.Call) and _is(v.func, 'self.clone'):
        kw = _kw(v, ['start', 'end'])
        return '(.clone %s %s)' % (aexpr(kw['start']), aexpr(kw['end']))
    if isinstance(v, ast.Subscript):
        base, sl = v.value, v.slice
        if _is(base, 'list(self)') and isinstance(sl, ast.Slice) and sl.step is None \
                and sl.lower is not None and sl.upper is not None:
            return '(.listSlice %s %s)' % (aexpr(sl.lower), aexpr(sl.upper))
        if _is(base, 'list(iter(self))') and not isinstance(sl, ast.Slice):
            return '(.listIndex %s)' % aexpr(sl)
        if isinstance(base, ast.Call) and _is(base.func, 'list') and len(base.args) == 1 \
                and isinstance(base.args[0], ast.Call) and _is(base.args[0].func, 'self.clone') \
                and isinstance(sl, ast.Constant) and sl.value == 0:
            kw = _kw(base.args[0], ['start', 'end'])
            return '(.firstOfClone %s %s)' % (aexpr(kw['start']), aexpr(kw['end']))
    raise ExtractError('return outside the fragment: %s' % ast.unparse(n))


def stmt(n):
    if isinstance(n, ast.Assert):
        return '(.assert %s)' % cexpr(n.test)
    if isinstance(n, ast.Assign) and len(n.targets) == 1 and isinstance(n.targets[0], ast.Name) \
            and n.targets[0].id in ('start', 'end'):
        return '(.assign "%s" %s)' % (n.targets[0].id, aexpr(n.value))
    if isinstance(n, ast.If):
        return '(.ite %s %s %s)' % (cexpr(n.test), block(n.body), block(n.orelse))
    if isinstance(n, ast.Return):
        return '(.ret %s)' % ret(n)
    if isinstance(n, ast.Raise) and isinstance(n.exc, ast.Call) and _is(n.exc.func, 'IndexError'):
        return '.raiseIndexError'
    raise ExtractError('statement outside the fragment: %s' % ast.unparse(n).split('\n')[0])


def block(stmts):
    out = '.nil'
    for s in reversed(stmts):
        out = '(.cons %s\n    %s)' % (stmt(s), out)
    return out


def extract(repo):
    tree = parse(repo, 'sqlobject/sresults.py')
    fn = find_func(find_class(tree, 'SelectResults'), '__getitem__')
    if [a.arg for a in fn.args.args] != ['self', 'value']:
        raise ExtractError('unexpected signature of __getitem__')
    body = strip_doc(fn.body)
    if not (len(body) == 1 and isinstance(body[0], ast.If) and _is(body[0].test, 'isinstance(value, slice)')
            and body[0].orelse):
        raise ExtractError('__getitem__ is no longer `if isinstance(value, slice): … else: …`')
    top = body[0]
    # `limit(n)` must still be `self[:n]`
    lim = find_func(find_class(tree, 'SelectResults'), 'limit')
    lb = strip_doc(lim.body)
    if not (len(lb) == 1 and isinstance(lb[0], ast.Return) and _is(lb[0].value, 'self[:limit]')):
        raise ExtractError('limit() is no longer `return self[:limit]`')
    lines = [HEADER % 'getitem', 'import SqlObjVerif.Model.PyMini', '',
             'namespace SqlObjVerif.Slice.Extracted', 'open SqlObjVerif.PyMini', '',
             '/-- the `isinstance(value, slice)` branch of `SelectResults.__getitem__`, translated -/',
             'def sliceProg : Block :=\n  %s' % block(top.body), '',
             '/-- the `else` (integer index) branch of `SelectResults.__getitem__`, translated -/',
             'def indexProg : Block :=\n  %s' % block(top.orelse), '',
             'end SqlObjVerif.Slice.Extracted']
    return '\n'.join(lines) + '\n'
