"""TRANSLATOR: the connection-URI code of sqlobject -> PyUri blocks.

`DBConnection._parseURI / uri / connectionFromURI` (sqlobject/dbconnection.py), `SQLiteConnection.uri /
_connectionFromParams` (sqlobject/sqlite/sqliteconnection.py) and `ConnectionURIOpener.connectionForURI` are
translated statement by statement into the deep embedding of `lean/SqlObjVerif/Model/PyUri.lean`.  Anything
outside the fragment raises ExtractError.  Conventions of the translation:
  * locals are numbered in order of first binding, the parameters (including `self` / `cls` and `**args`) first:
    a behaviour-preserving rename of a local gives the same term;
  * every top-level statement of a function becomes its own definition `<f>_s<k>` and the function is the block of
    these; the body of the n-th `for` loop (source order) is `<f>_for<n>`;
  * a called NAME is either a parameter (`cls(...)`: a call of a value), `getattr` with a literal attribute name and
    a default, one of the builtins `len` / `int`, or one of the functions the module imports from `urllib.parse`
    (`urlparse`, `parse_qsl`, `unquote`, `quote`, `urlencode`: the import statement is checked, and that the module
    binds these names nowhere else); `os.name` is the only module constant;
  * `x += e` is translated as `x = x + e` (the values of the fragment are immutable);
  * `assert c, msg` is translated as `assert c` (the message is not evaluated, see Model/PyUri.lean);
  * `x[k] = v` needs a local that is only ever bound to a fresh `{}` and is otherwise only returned;
    `x.a[k] = v` needs a local that is used nowhere but in attribute reads (no alias of the mutated object).
"""
import ast
from . import ExtractError, parse, find_class, find_func, strip_doc, HEADER, lean_str, lean_nat_list

TARGET = 'PyUri'

URLLIB = ('urlparse', 'parse_qsl', 'unquote', 'quote', 'urlencode')
BUILTINS = ('len', 'int')
CMP = {ast.Eq: '.eq', ast.NotEq: '.ne', ast.Lt: '.lt', ast.LtE: '.le', ast.Gt: '.gt', ast.GtE: '.ge',
       ast.In: '.isIn', ast.NotIn: '.notIn'}

# (file, class, python name, lean name, decorator)
FUNCTIONS = [
    ('sqlobject/dbconnection.py', 'DBConnection', '_parseURI', 'parseURI', 'staticmethod'),
    ('sqlobject/dbconnection.py', 'DBConnection', 'uri', 'uri', None),
    ('sqlobject/dbconnection.py', 'DBConnection', 'connectionFromURI', 'connectionFromURI', 'classmethod'),
    ('sqlobject/sqlite/sqliteconnection.py', 'SQLiteConnection', 'uri', 'sqliteUri', None),
    ('sqlobject/sqlite/sqliteconnection.py', 'SQLiteConnection', '_connectionFromParams',
     'sqliteConnectionFromParams', 'classmethod'),
    ('sqlobject/dbconnection.py', 'ConnectionURIOpener', 'connectionForURI', 'connectionForURI', None),
]


def _imported(tree, rel):
    """names the module imports from urllib.parse (Python 3 branch of the try/except import) and whether `os` is the
    module `os`; every other module-level binding of these names is refused"""
    names, has_os = set(), False

    def scan(stmts, top):
        nonlocal has_os
        for st in stmts:
            if isinstance(st, ast.ImportFrom):
                for a in st.names:
                    n = a.asname or a.name
                    if n in URLLIB:
                        if st.module == 'urllib.parse' and a.name == n and st.level == 0:
                            names.add(n)
                        elif st.module in ('urlparse', 'urllib') and a.name == n and st.level == 0:
                            pass        # the Python 2 spelling inside try: ImportError on Python 3
                        else:
                            raise ExtractError('%s: %s is imported from %s' % (rel, n, st.module))
                    elif n == 'os':
                        raise ExtractError('%s: os is not the module os' % rel)
            elif isinstance(st, ast.Import):
                for a in st.names:
                    n = a.asname or a.name
                    if n == 'os' and a.name == 'os':
                        has_os = True
                    elif n in URLLIB or n == 'os':
                        raise ExtractError('%s: %s is bound by import %s' % (rel, n, a.name))
            elif isinstance(st, ast.Try) and top:
                ok = all(isinstance(h.type, ast.Name) and h.type.id == 'ImportError' for h in st.handlers)
                if not ok or st.orelse or st.finalbody:
                    continue_names = {n.id for n in ast.walk(st) if isinstance(n, ast.Name)}
                    if continue_names & (set(URLLIB) | {'os'}):
                        raise ExtractError('%s: unexpected try statement binding a urllib name' % rel)
                scan(st.body, False)
                for h in st.handlers:
                    scan(h.body, False)
            elif isinstance(st, (ast.FunctionDef, ast.ClassDef)):
                if st.name in URLLIB or st.name == 'os':
                    raise ExtractError('%s: %s is redefined by the module' % (rel, st.name))
            elif isinstance(st, (ast.Assign, ast.AugAssign, ast.AnnAssign)):
                ts = st.targets if isinstance(st, ast.Assign) else [st.target]
                for t in ts:
                    for n in ast.walk(t):
                        if isinstance(n, ast.Name) and (n.id in URLLIB or n.id == 'os'):
                            raise ExtractError('%s: %s is rebound by the module' % (rel, n.id))
    scan(tree.body, True)
    return names, has_os


def _nats(s):
    return lean_nat_list(s)


class Fn(object):
    def __init__(self, fn, lean, where, imported, has_os, deco):
        self.fn, self.lean, self.where, self.imported, self.has_os = fn, lean, where, imported, has_os
        a = fn.args
        if a.kwonlyargs or a.posonlyargs or a.vararg:
            self.fail('unexpected signature')
        decos = [d.id if isinstance(d, ast.Name) else '?' for d in fn.decorator_list]
        if decos != ([deco] if deco else []):
            self.fail('decorators are %r, expected %r' % (decos, deco))
        self.params = [x.arg for x in a.args]
        if deco is None and self.params[:1] != ['self']:
            self.fail('first parameter is not self')
        if deco == 'classmethod' and self.params[:1] != ['cls']:
            self.fail('first parameter is not cls')
        self.defaults = [ast.unparse(d) for d in a.defaults]
        if a.kwarg:
            self.params.append(a.kwarg.arg)
        self.vars = list(self.params)
        self.loops = []
        body = strip_doc(fn.body)
        self._collect(body)
        self._alias_checks(body)
        self.stmts = [(self.stmt(s), s) for s in body]

    def fail(self, what, n=None):
        raise ExtractError('%s: %s%s' % (self.where, what,
                                         (': ' + ast.unparse(n).split('\n')[0]) if n is not None else ''))

    # ---- names ---------------------------------------------------------------------------
    def _collect(self, stmts):
        m = self

        def bind(t):
            if isinstance(t, ast.Name):
                if t.id not in m.vars:
                    m.vars.append(t.id)
            elif isinstance(t, ast.Tuple):
                for e in t.elts:
                    if not isinstance(e, ast.Name):
                        m.fail('unpacking target outside the fragment', t)
                    bind(e)

        class V(ast.NodeVisitor):
            def visit_Assign(s, n):
                s.visit(n.value)
                for t in n.targets:
                    bind(t)

            def visit_AugAssign(s, n):
                s.visit(n.value)
                bind(n.target)

            def visit_For(s, n):
                s.visit(n.iter)
                bind(n.target)
                for b in n.body:
                    s.visit(b)

            def visit_NamedExpr(s, n):
                m.fail('walrus', n)

            def visit_ListComp(s, n):
                m.fail('comprehension', n)
            visit_SetComp = visit_DictComp = visit_GeneratorExp = visit_ListComp

            def visit_Lambda(s, n):
                m.fail('lambda', n)

            def visit_FunctionDef(s, n):
                m.fail('nested function', n)

            def visit_Global(s, n):
                m.fail('global', n)
            visit_Nonlocal = visit_Global

        v = V()
        for st in stmts:
            v.visit(st)

    def _alias_checks(self, body):
        m = self
        mod = ast.Module(body=body, type_ignores=[])
        item_locals, attr_locals = set(), set()
        for n in ast.walk(mod):
            if isinstance(n, (ast.Assign, ast.AugAssign)):
                ts = n.targets if isinstance(n, ast.Assign) else [n.target]
                for t in ts:
                    if isinstance(t, ast.Subscript):
                        if isinstance(t.value, ast.Name):
                            item_locals.add(t.value.id)
                        elif isinstance(t.value, ast.Attribute) and isinstance(t.value.value, ast.Name):
                            attr_locals.add(t.value.value.id)
                        else:
                            m.fail('item assignment outside the fragment', n)
        parents = {}
        for n in ast.walk(mod):
            for c in ast.iter_child_nodes(n):
                parents[c] = n
        for x in item_locals:
            if x in m.params:
                m.fail('item assignment to the parameter %s (the caller holds an alias)' % x)
            for n in ast.walk(mod):
                if isinstance(n, ast.Name) and n.id == x:
                    p = parents[n]
                    if isinstance(n.ctx, ast.Store):
                        ok = isinstance(p, ast.Assign) and len(p.targets) == 1 and isinstance(p.value, ast.Dict) \
                            and not p.value.keys
                    else:
                        ok = (isinstance(p, ast.Subscript) and p.value is n and isinstance(p.ctx, ast.Store)) \
                            or isinstance(p, ast.Return) \
                            or (isinstance(p, ast.Tuple) and isinstance(parents[p], ast.Return))
                    if not ok:
                        m.fail('the dict local %s may have an alias' % x, p)
        for x in attr_locals:
            for n in ast.walk(mod):
                if isinstance(n, ast.Name) and n.id == x:
                    p = parents[n]
                    if not (isinstance(n.ctx, ast.Load) and isinstance(p, ast.Attribute) and p.value is n):
                        m.fail('the object local %s may have an alias' % x, p)

    def var(self, name, n=None):
        if name not in self.vars:
            self.fail('unknown name %s' % name, n)
        return self.vars.index(name)

    # ---- expressions ---------------------------------------------------------------------
    def exprs(self, es):
        out = '.nil'
        for e in reversed(es):
            out = '(.cons %s %s)' % (self.expr(e), out)
        return out

    def expr(self, n):
        m = self
        if isinstance(n, ast.Constant):
            v = n.value
            if v is None:
                return '.none'
            if v is True:
                return '.true'
            if v is False:
                return '.false'
            if isinstance(v, int):
                return '(.int %d)' % v
            if isinstance(v, str):
                return '(.str %s)' % _nats(v)
            m.fail('constant outside the fragment', n)
        if isinstance(n, ast.UnaryOp) and isinstance(n.op, ast.USub) and isinstance(n.operand, ast.Constant) \
                and isinstance(n.operand.value, int) and not isinstance(n.operand.value, bool):
            return '(.int (%d))' % (-n.operand.value)
        if isinstance(n, ast.Name):
            if n.id in m.vars:
                return '(.var %d)' % m.var(n.id)
            m.fail('name outside the fragment', n)
        if isinstance(n, ast.Attribute):
            if isinstance(n.value, ast.Name) and n.value.id not in m.vars:
                if n.value.id == 'os' and n.attr == 'name' and m.has_os:
                    return '(.glob "os.name")'
                m.fail('module constant outside the fragment', n)
            return '(.attr %s %s)' % (m.expr(n.value), lean_str(n.attr))
        if isinstance(n, ast.Tuple):
            return '(.tuple %s)' % m.exprs(n.elts)
        if isinstance(n, ast.Dict):
            if n.keys:
                m.fail('dict display outside the fragment', n)
            return '.emptyDict'
        if isinstance(n, ast.UnaryOp) and isinstance(n.op, ast.Not):
            return '(.not %s)' % m.expr(n.operand)
        if isinstance(n, ast.BoolOp):
            op = '.and' if isinstance(n.op, ast.And) else '.or'
            out = m.expr(n.values[-1])
            for v in reversed(n.values[:-1]):
                out = '(%s %s %s)' % (op, m.expr(v), out)
            return out
        if isinstance(n, ast.Compare):
            if len(n.ops) != 1:
                m.fail('chained comparison', n)
            op, a, b = n.ops[0], n.left, n.comparators[0]
            if isinstance(op, (ast.Is, ast.IsNot)):
                if not (isinstance(b, ast.Constant) and b.value is None):
                    m.fail('`is` against something other than None', n)
                return '(%s %s)' % ('.isNone' if isinstance(op, ast.Is) else '.isNotNone', m.expr(a))
            if type(op) not in CMP:
                m.fail('comparison outside the fragment', n)
            return '(.cmp %s %s %s)' % (CMP[type(op)], m.expr(a), m.expr(b))
        if isinstance(n, ast.BinOp):
            if isinstance(n.op, ast.Add):
                return '(.add %s %s)' % (m.expr(n.left), m.expr(n.right))
            if isinstance(n.op, ast.Mod):
                return '(.mod %s %s)' % (m.expr(n.left), m.expr(n.right))
            m.fail('operator outside the fragment', n)
        if isinstance(n, ast.Subscript):
            s = n.slice
            if isinstance(s, ast.Slice):
                if s.step is not None:
                    m.fail('slice with a step', n)
                if s.lower is not None and s.upper is not None:
                    return '(.slice %s %s %s)' % (m.expr(n.value), m.expr(s.lower), m.expr(s.upper))
                if s.lower is not None:
                    return '(.sliceFrom %s %s)' % (m.expr(n.value), m.expr(s.lower))
                if s.upper is not None:
                    return '(.sliceTo %s %s)' % (m.expr(n.value), m.expr(s.upper))
                m.fail('full slice', n)
            return '(.index %s %s)' % (m.expr(n.value), m.expr(s))
        if isinstance(n, ast.Call):
            return m.call(n)
        m.fail('expression outside the fragment', n)

    def call(self, n):
        m = self
        f = n.func
        stars = [a for a in n.args if isinstance(a, ast.Starred)]
        dstars = [k for k in n.keywords if k.arg is None]
        kws = [k for k in n.keywords if k.arg is not None]
        if isinstance(f, ast.Name):
            if f.id in m.vars:
                # a call of a value: keyword arguments and at most one `**d`
                if n.args or len(dstars) > 1 or (dstars and n.keywords[-1] is not dstars[0]):
                    m.fail('call of a value outside the fragment', n)
                star = m.expr(dstars[0].value) if dstars else '.emptyDict'
                return '(.callVal %s [%s] %s %s)' % (m.expr(f), ', '.join(_nats(k.arg) for k in kws),
                                                    m.exprs([k.value for k in kws]), star)
            if stars or dstars:
                m.fail('star arguments', n)
            if f.id == 'getattr':
                if len(n.args) != 3 or kws or not (isinstance(n.args[1], ast.Constant)
                                                   and isinstance(n.args[1].value, str)):
                    m.fail('getattr outside the fragment', n)
                return '(.getattrD %s %s %s)' % (m.expr(n.args[0]), lean_str(n.args[1].value), m.expr(n.args[2]))
            if f.id in BUILTINS or f.id in m.imported:
                return '(.call %s %s [%s] %s)' % (lean_str(f.id), m.exprs(n.args),
                                                  ', '.join(lean_str(k.arg) for k in kws),
                                                  m.exprs([k.value for k in kws]))
            m.fail('call of an unknown function', n)
        if isinstance(f, ast.Attribute):
            if n.keywords:
                m.fail('keyword arguments of a method call', n)
            if stars:
                if len(n.args) != 1:
                    m.fail('star arguments', n)
                return '(.methodStar %s %s %s)' % (m.expr(f.value), lean_str(f.attr), m.expr(stars[0].value))
            return '(.method %s %s %s)' % (m.expr(f.value), lean_str(f.attr), m.exprs(n.args))
        m.fail('call outside the fragment', n)

    # ---- statements ----------------------------------------------------------------------
    def target(self, t, n):
        if isinstance(t, ast.Name):
            return '(.one %d)' % self.var(t.id)
        if isinstance(t, ast.Tuple) and all(isinstance(e, ast.Name) for e in t.elts):
            return '(.tup [%s])' % ', '.join(str(self.var(e.id)) for e in t.elts)
        self.fail('assignment target outside the fragment', n)

    def block(self, stmts):
        out = '.nil'
        for s in reversed(stmts):
            out = '(.cons %s %s)' % (self.stmt(s), out)
        return out

    def stmt(self, n):
        m = self
        if isinstance(n, ast.Assign):
            if len(n.targets) != 1:
                m.fail('chained assignment', n)
            t = n.targets[0]
            if isinstance(t, ast.Subscript):
                if isinstance(t.slice, ast.Slice):
                    m.fail('slice assignment', n)
                if isinstance(t.value, ast.Name):
                    return '(.setItem %d %s %s)' % (m.var(t.value.id), m.expr(t.slice), m.expr(n.value))
                if isinstance(t.value, ast.Attribute) and isinstance(t.value.value, ast.Name):
                    return '(.setAttrItem %d %s %s %s)' % (m.var(t.value.value.id), lean_str(t.value.attr),
                                                          m.expr(t.slice), m.expr(n.value))
                m.fail('item assignment outside the fragment', n)
            return '(.assign %s %s)' % (m.target(t, n), m.expr(n.value))
        if isinstance(n, ast.AugAssign):
            if not (isinstance(n.op, ast.Add) and isinstance(n.target, ast.Name)):
                m.fail('augmented assignment outside the fragment', n)
            x = m.var(n.target.id)
            return '(.assign (.one %d) (.add (.var %d) %s))' % (x, x, m.expr(n.value))
        if isinstance(n, ast.If):
            return '(.ite %s %s %s)' % (m.expr(n.test), m.block(n.body), m.block(n.orelse))
        if isinstance(n, ast.For):
            if n.orelse:
                m.fail('for/else', n)
            for sub in ast.walk(n):
                if isinstance(sub, (ast.Break, ast.Continue)):
                    m.fail('break / continue', n)
            t = m.target(n.target, n)
            it = m.expr(n.iter)
            body = m.block(n.body)
            k = len(m.loops)
            m.loops.append((body, n))
            return '(.for %s %s %s_for%d)' % (t, it, m.lean, k)
        if isinstance(n, ast.Assert):
            return '(.assert %s)' % m.expr(n.test)
        if isinstance(n, ast.Return):
            return '(.ret %s)' % (m.expr(n.value) if n.value is not None else '.none')
        if isinstance(n, ast.Expr):
            return '(.expr %s)' % m.expr(n.value)
        if isinstance(n, ast.Pass):
            return '.pass'
        m.fail('statement outside the fragment', n)


def _doc(n):
    line = ast.unparse(n).split('\n')[0]
    return line.replace('-/', '- /').replace('/-', '/ -')


def extract(repo):
    out = [HEADER % 'pyuri', 'import SqlObjVerif.Model.PyUri', '',
           'namespace SqlObjVerif.PyUri.Extracted', 'open SqlObjVerif.PyUri', '']
    trees = {}
    for rel, cname, pyname, lean, deco in FUNCTIONS:
        if rel not in trees:
            tree = parse(repo, rel)
            trees[rel] = (tree,) + _imported(tree, rel)
        tree, imported, has_os = trees[rel]
        fn = find_func(find_class(tree, cname), pyname)
        f = Fn(fn, lean, '%s.%s' % (cname, pyname), imported, has_os, deco)
        out.append('/-! ### `%s.%s(%s)`: locals %s -/' % (
            cname, pyname, ', '.join(f.params), ', '.join('%s=%d' % (v, i) for i, v in enumerate(f.vars))))
        out.append('')
        for k, (body, node) in enumerate(f.loops):
            out.append('/-- body of `%s` -/' % _doc(node))
            out.append('def %s_for%d : Block :=\n  %s' % (lean, k, body))
            out.append('')
        for k, (term, node) in enumerate(f.stmts):
            out.append('/-- `%s` -/' % _doc(node))
            out.append('def %s_s%d : Stmt :=\n  %s' % (lean, k, term))
            out.append('')
        blk = '.nil'
        for k in reversed(range(len(f.stmts))):
            blk = '(.cons %s_s%d %s)' % (lean, k, blk)
        out.append('def %s : Block :=\n  %s' % (lean, blk))
        out.append('')
        out.append('def %s_params : List String := [%s]' % (lean, ', '.join(lean_str(p) for p in f.params)))
        out.append('def %s_defaults : List String := [%s]' % (lean, ', '.join(lean_str(p) for p in f.defaults)))
        out.append('')
    out.append('end SqlObjVerif.PyUri.Extracted')
    return '\n'.join(out) + '\n'
