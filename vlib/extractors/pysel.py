"""TRANSLATOR: the `sqlbuilder.Select` class and the tables-used recursion -> PySel blocks.

`Select.__init__ / clone / newItems / newClause / orderBy / unlimited / limit / lazyColumns / reversed / distinct / filter /
__sqlrepr__`, `_str_or_sqlrepr`, the module function `tablesUsedSet`, `SQLExpression.components / tablesUsed /
tablesUsedSet / tablesUsedImmediate`, `SQLOp / SQLPrefix / SQLCall / INSubquery .components` and
`Field.tablesUsedImmediate` (sqlobject/sqlbuilder.py) are translated statement by statement into the deep embedding of
`lean/SqlObjVerif/Model/PySel.lean` (values of Model/PyExpr.lean + a heap for dicts).  Anything outside the fragment
raises ExtractError.  Conventions:
  * locals are numbered in order of first binding, the parameters (including `self` and `**newOps`) first, loop and
    comprehension variables after them: a behaviour-preserving rename of a local gives the same term;
  * every top-level statement of a function becomes its own definition `<f>_s<k>`, the function is the block of these; the
    body of the n-th `for` loop (source order) is `<f>_for<n>`;
  * parameters with defaults: `<f>_params` lists the names, `<f>_defaults` the default values (constants, `NoDefault`);
  * a NAME that is not a local: as a callee a module-level name bound exactly once (`.call`), one of the builtins
    `set / list / str / sorted / isinstance / hasattr` (not rebound by the module), or a name bound by a function-level
    `from .m import f`; as a value only `NoDefault` and `DESC` (`.glob "@Name"`); `string_type` (imported from
    .compat) is the class `str`, `types.GeneratorType` the class `GeneratorType`;
  * EXPRESSIONS ARE PURE.  Heap-changing forms are statements: `x.a = {}`, `x.a[k] = v`, `t = e.copy()`, `x.update(y)`,
    and, in the methods of `Select`, a method call on `self` (`self.m(...)`, `self.__class__(**d)`) that is the whole of a
    `return`, an expression statement or an assignment to a local; there a method call on `self` anywhere else is refused;
    method calls on other receivers and the `self.components()` / `self.tablesUsedImmediate()` / `self.tablesUsedSet(db)`
    calls of the expression classes are pure (`self.ops.get(k, d)`, `", ".join(l)`, `f(db)._queryAddLimitOffset(...)`);
  * `x.append / extend / add / remove / update (e)` as a statement on a local is a mutation of that local: lists and
    sets are rebound, so the translator demands that the local was bound to a fresh value (`[]`, `set()`,
    `list(..) + ..`) and that no other name is bound to it before the last mutation (`tablesYet = tables` comes after
    the last `tables.remove`); a dict local (bound by `.copy()`, a `**kw` parameter, or `x = self.ops` — then `x` is
    another name for the SAME dict) is written in the heap;
  * `x += e` is `x = x + e`; the only nested function accepted is the identity `def f(x): return x` (`.glob "@ident"`).
"""
import ast
from . import ExtractError, find_func, strip_doc, HEADER, lean_str, lean_nat_list
from .pyexpr import Module, _doc

TARGET = 'PySel'

SB = 'sqlobject/sqlbuilder.py'
SELECT = ['__init__', 'clone', 'newItems', 'newClause', 'orderBy', 'unlimited', 'limit', 'lazyColumns', 'reversed',
          'distinct', 'filter', '__sqlrepr__']
METHODS = ([('Select', m) for m in SELECT] +
           [('SQLExpression', 'components'), ('SQLExpression', 'tablesUsed'), ('SQLExpression', 'tablesUsedSet'),
            ('SQLExpression', 'tablesUsedImmediate'), ('SQLOp', 'components'), ('SQLPrefix', 'components'),
            ('SQLCall', 'components'), ('INSubquery', 'components'), ('Field', 'tablesUsedImmediate')])
FUNCTIONS = ['_str_or_sqlrepr', 'tablesUsedSet']
BUILTINS = ('set', 'list', 'str', 'sorted')
GLOBS = ('NoDefault', 'DESC')
CLASS_ALIASES = {'string_type': 'str'}
MUTATORS = ('append', 'extend', 'add', 'remove', 'update')
CMP = {ast.Eq: '.eq', ast.NotEq: '.ne', ast.In: '.isIn'}


def lean_name(cls, name):
    n = name.strip('_') if name.startswith('__') and name.endswith('__') else name.lstrip('_')
    return '%s_%s' % (cls, n) if cls else 'f_%s' % n


class SFn(object):
    def __init__(self, mod, fn, lean, where, is_method):
        self.mod, self.fn, self.lean, self.where = mod, fn, lean, where
        a = fn.args
        if a.kwonlyargs or a.posonlyargs or a.vararg:
            self.fail('unexpected signature')
        if fn.decorator_list:
            self.fail('decorated')
        self.params = [x.arg for x in a.args]
        self.vars = []
        nd = len(a.defaults)
        self.defaults = [None] * (len(self.params) - nd) + [self.const_val(d) for d in a.defaults]
        self.kwarg = a.kwarg.arg if a.kwarg else None
        if self.kwarg:
            self.params.append(self.kwarg)
            self.defaults.append(None)
        if is_method and self.params[:1] != ['self']:
            self.fail('first parameter is not self')
        self.is_method = is_method
        self.is_init = is_method and fn.name == '__init__'
        self.vars = list(self.params)
        self.local_fns = set()      # names bound by a function-level `from .m import f`
        self.idents = set()         # names bound by the identity `def f(x): return x`
        self.loops = []
        body = strip_doc(fn.body)
        self._collect(body)
        self._alias_checks(body)
        self.stmts = [(self.stmt(s), s) for s in body]

    def fail(self, what, n=None):
        raise ExtractError('%s: %s%s' % (self.where, what,
                                         (': ' + ast.unparse(n).split('\n')[0]) if n is not None else ''))

    def const_val(self, d):
        """a default value as a Lean `Val`"""
        if isinstance(d, ast.Constant):
            v = d.value
            if v is None:
                return 'Val.none'
            if v is True:
                return '(Val.bool true)'
            if v is False:
                return '(Val.bool false)'
            if isinstance(v, int):
                return '(Val.int %d)' % v
        if isinstance(d, ast.Name) and d.id == 'NoDefault':
            self.glob_name('NoDefault', d)
            return '(globV "@NoDefault")'
        self.fail('default value outside the fragment', d)

    # ---- names ---------------------------------------------------------------------------
    def _collect(self, stmts):
        m = self

        def bind(t):
            if isinstance(t, ast.Name):
                if t.id not in m.vars:
                    m.vars.append(t.id)
            elif isinstance(t, ast.Tuple):
                for e in t.elts:
                    if not isinstance(e, ast.Name):
                        m.fail('unpacking target outside the fragment', t)
                    bind(e)

        class V(ast.NodeVisitor):
            def visit_Assign(s, n):
                s.visit(n.value)
                for t in n.targets:
                    bind(t)

            def visit_AugAssign(s, n):
                s.visit(n.value)
                if not (isinstance(n.target, ast.Name) and isinstance(n.op, ast.Add)):
                    m.fail('augmented assignment outside the fragment', n)
                bind(n.target)

            def visit_For(s, n):
                s.visit(n.iter)
                if not isinstance(n.target, ast.Name) or n.orelse:
                    m.fail('for loop outside the fragment', n)
                for sub in ast.walk(n):
                    if isinstance(sub, (ast.Break, ast.Continue, ast.Return)):
                        m.fail('break / continue / return inside a loop', n)
                bind(n.target)
                for b in n.body:
                    s.visit(b)

            def visit_While(s, n):
                m.fail('while loop', n)
            visit_Try = visit_With = visit_While

            def visit_ImportFrom(s, n):
                for a in n.names:
                    if a.asname or n.level != 1:
                        m.fail('import outside the fragment', n)
                    m.local_fns.add(a.name)

            def visit_Import(s, n):
                m.fail('import', n)

            def visit_NamedExpr(s, n):
                m.fail('walrus', n)

            def visit_ListComp(s, n):
                if len(n.generators) != 1 or n.generators[0].ifs or n.generators[0].is_async \
                        or not isinstance(n.generators[0].target, ast.Name):
                    m.fail('comprehension outside the fragment', n)
                s.visit(n.generators[0].iter)
                bind(n.generators[0].target)
                s.visit(n.elt)

            def visit_SetComp(s, n):
                m.fail('comprehension', n)
            visit_DictComp = visit_GeneratorExp = visit_SetComp

            def visit_Lambda(s, n):
                m.fail('lambda', n)

            def visit_FunctionDef(s, n):
                a = n.args
                ok = (len(a.args) == 1 and not (a.vararg or a.kwarg or a.defaults or a.kwonlyargs or n.decorator_list)
                      and len(n.body) == 1 and isinstance(n.body[0], ast.Return)
                      and isinstance(n.body[0].value, ast.Name) and n.body[0].value.id == a.args[0].arg)
                if not ok:
                    m.fail('nested function other than the identity', n)
                if n.name not in m.vars:
                    m.vars.append(n.name)
                m.idents.add(n.name)

            def visit_ClassDef(s, n):
                m.fail('nested class', n)

            def visit_Global(s, n):
                m.fail('global', n)
            visit_Nonlocal = visit_Global

        v = V()
        for st in stmts:
            v.visit(st)
        for c in m.local_fns:
            if c in m.vars:
                m.fail('imported name %s is also a local' % c)

    def _alias_checks(self, body):
        """lists / sets are values that mutation statements rebind: the mutated local must be the only name of its value"""
        m = self
        mod = ast.Module(body=body, type_ignores=[])
        parents = {}
        for n in ast.walk(mod):
            for c in ast.iter_child_nodes(n):
                parents[c] = n
        mutated = {}
        for n in ast.walk(mod):
            if isinstance(n, ast.Expr) and isinstance(n.value, ast.Call) and isinstance(n.value.func, ast.Attribute) \
                    and n.value.func.attr in MUTATORS and isinstance(n.value.func.value, ast.Name) \
                    and n.value.func.value.id in m.vars:
                mutated.setdefault(n.value.func.value.id, []).append(n)
        self.dict_locals = set()
        for x, muts in mutated.items():
            binds = [n for n in ast.walk(mod) if isinstance(n, ast.Assign)
                     and any(isinstance(t, ast.Name) and t.id == x for t in n.targets)]
            if x == m.kwarg and not binds:
                self.dict_locals.add(x)
                continue
            if x in m.params:
                m.fail('mutation of the parameter %s (the caller holds the object)' % x)
            if len(binds) != 1:
                m.fail('the mutated local %s is not bound exactly once' % x)
            v = binds[0].value
            if isinstance(v, ast.Call) and isinstance(v.func, ast.Attribute) and v.func.attr == 'copy' and not v.args:
                self.dict_locals.add(x)       # a fresh dict in the heap: aliases are handled by the heap
                continue
            if isinstance(v, ast.Attribute) and isinstance(v.value, ast.Name) and v.value.id == 'self' and v.attr == 'ops' \
                    and all(mu.value.func.attr == 'update' for mu in muts):
                self.dict_locals.add(x)       # a second NAME for the dict of self.ops: the heap shows the write
                continue
            fresh = (isinstance(v, ast.List) and not v.elts) or \
                    (isinstance(v, ast.Call) and isinstance(v.func, ast.Name) and v.func.id == 'set' and not v.args) or \
                    (isinstance(v, ast.BinOp) and isinstance(v.op, ast.Add) and isinstance(v.left, ast.Call)
                     and isinstance(v.left.func, ast.Name) and v.left.func.id == 'list')
            if not fresh:
                m.fail('the mutated local %s is not bound to a fresh list / set / dict copy' % x, binds[0])
            last = max(s.lineno for s in muts)
            for n in ast.walk(mod):
                if isinstance(n, ast.Name) and n.id == x and isinstance(n.ctx, ast.Load) and n.lineno <= last:
                    p = parents[n]
                    ok = (isinstance(p, ast.Attribute) and p.value is n) or isinstance(p, (ast.Compare, ast.If, ast.For)) \
                        or (isinstance(p, ast.BoolOp))
                    if not ok:
                        m.fail('the mutated local %s may get a second name' % x, p)
        # attribute / item assignment: only `self.a = …` in an __init__ and `self.a[k] = …`
        for n in ast.walk(mod):
            if isinstance(n, ast.Assign):
                for t in n.targets:
                    if isinstance(t, ast.Attribute):
                        if not (m.is_init and isinstance(t.value, ast.Name) and t.value.id == 'self'):
                            m.fail('attribute assignment outside an __init__ on self', n)
                    elif isinstance(t, ast.Subscript):
                        if not (isinstance(t.value, ast.Attribute) and isinstance(t.value.value, ast.Name)
                                and t.value.value.id == 'self'):
                            m.fail('item assignment outside the fragment', n)
        if m.is_init:
            for n in ast.walk(mod):
                if isinstance(n, ast.Name) and n.id == 'self':
                    p = parents[n]
                    if not (isinstance(p, ast.Attribute) and p.value is n):
                        m.fail('the object under construction may get an alias', p)

    def var(self, name, n=None):
        if name not in self.vars:
            self.fail('unknown name %s' % name, n)
        return self.vars.index(name)

    def glob_name(self, name, n):
        if name in self.vars:
            self.fail('global name is a local', n)
        if not self.mod.once(name):
            self.fail('name %s is not bound exactly once at module level' % name, n)
        return name

    def callee(self, name, n):
        m = self
        if name in m.local_fns:
            return name
        if name in BUILTINS:
            if m.mod.count.get(name, 0):
                m.fail('builtin %s is rebound by the module' % name, n)
            return name
        return m.glob_name(name, n)

    def class_name(self, node, n):
        m = self
        if isinstance(node, ast.Attribute) and ast.unparse(node) == 'types.GeneratorType':
            if m.mod.count.get('types', 0) != 1 or 'types' not in m.mod.imported:
                m.fail('types is not the module types', n)
            return 'GeneratorType'
        if not isinstance(node, ast.Name):
            m.fail('class expression outside the fragment', n)
        if node.id in m.vars:
            m.fail('class is a local', n)
        if node.id in CLASS_ALIASES:
            if node.id not in m.mod.imported or not m.mod.once(node.id):
                m.fail('%s is not the imported alias' % node.id, n)
            return CLASS_ALIASES[node.id]
        if node.id in ('tuple', 'list', 'str', 'int', 'float', 'bool', 'dict'):
            if m.mod.count.get(node.id, 0):
                m.fail('builtin type %s is rebound by the module' % node.id, n)
            return node.id
        if not m.mod.once(node.id) or node.id not in m.mod.classes:
            m.fail('class %s is not defined exactly once at module level' % node.id, n)
        return node.id

    # ---- expressions ---------------------------------------------------------------------
    def exprs(self, es):
        out = '.nil'
        for e in reversed(es):
            out = '(.cons %s %s)' % (self.expr(e), out)
        return out

    def is_self_call(self, n):
        # the methods of Select allocate (clone / __class__ / the derivers); the tables-used methods of the expression
        # classes are pure
        return isinstance(n, ast.Call) and isinstance(n.func, ast.Attribute) and isinstance(n.func.value, ast.Name) \
            and n.func.value.id == 'self' and self.is_method and self.where.startswith('Select.')

    def expr(self, n):
        m = self
        if isinstance(n, ast.Constant):
            v = n.value
            if v is None:
                return '.none'
            if v is True:
                return '.true'
            if v is False:
                return '.false'
            if isinstance(v, int):
                return '(.int %d)' % v
            if isinstance(v, str):
                return '(.str %s)' % lean_nat_list(v)
            m.fail('constant outside the fragment', n)
        if isinstance(n, ast.UnaryOp) and isinstance(n.op, ast.USub) and isinstance(n.operand, ast.Constant) \
                and isinstance(n.operand.value, int) and not isinstance(n.operand.value, bool):
            return '(.int (%d))' % (-n.operand.value)
        if isinstance(n, ast.Name):
            if n.id in m.vars:
                return '(.var %d)' % m.var(n.id)
            if n.id in GLOBS:
                return '(.glob %s)' % lean_str('@' + m.glob_name(n.id, n))
            m.fail('name outside the fragment', n)
        if isinstance(n, ast.Attribute):
            if isinstance(n.value, ast.Name) and n.value.id not in m.vars:
                m.fail('attribute of a global', n)
            return '(.attr %s %s)' % (m.expr(n.value), lean_str(n.attr))
        if isinstance(n, ast.Tuple):
            return '(.tuple %s)' % m.exprs(n.elts)
        if isinstance(n, ast.List):
            return '(.list %s)' % m.exprs(n.elts)
        if isinstance(n, ast.Dict):
            if n.keys:
                m.fail('dict display outside the fragment', n)
            m.fail('`{}` is accepted only as the whole of a return (a dict value that nobody mutates)', n)
        if isinstance(n, ast.UnaryOp) and isinstance(n.op, ast.Not):
            return '(.not %s)' % m.expr(n.operand)
        if isinstance(n, ast.BoolOp):
            op = '.and' if isinstance(n.op, ast.And) else '.or'
            out = m.expr(n.values[-1])
            for v in reversed(n.values[:-1]):
                out = '(%s %s %s)' % (op, m.expr(v), out)
            return out
        if isinstance(n, ast.Compare):
            if len(n.ops) != 1:
                m.fail('chained comparison', n)
            op, a, b = n.ops[0], n.left, n.comparators[0]
            if isinstance(op, (ast.Is, ast.IsNot)):
                pos = isinstance(op, ast.Is)
                if isinstance(b, ast.Constant) and b.value is None:
                    return '(%s %s)' % ('.isNone' if pos else '.isNotNone', m.expr(a))
                if isinstance(b, ast.Name) and b.id in GLOBS and b.id not in m.vars:
                    return '(%s %s %s)' % ('.isGlob' if pos else '.isNotGlob', m.expr(a),
                                           lean_str('@' + m.glob_name(b.id, n)))
                m.fail('`is` against something other than None / NoDefault', n)
            if type(op) not in CMP:
                m.fail('comparison outside the fragment', n)
            return '(.cmp %s %s %s)' % (CMP[type(op)], m.expr(a), m.expr(b))
        if isinstance(n, ast.BinOp):
            if isinstance(n.op, ast.Add):
                return '(.add %s %s)' % (m.expr(n.left), m.expr(n.right))
            if isinstance(n.op, ast.Mod):
                return '(.mod %s %s)' % (m.expr(n.left), m.expr(n.right))
            m.fail('operator outside the fragment', n)
        if isinstance(n, ast.Subscript):
            s = n.slice
            if isinstance(s, ast.Slice):
                if s.step is not None or s.upper is None or s.lower is None:
                    m.fail('slice outside the fragment', n)
                return '(.slice2 %s %s %s)' % (m.expr(n.value), m.expr(s.lower), m.expr(s.upper))
            return '(.index %s %s)' % (m.expr(n.value), m.expr(s))
        if isinstance(n, ast.ListComp):
            g = n.generators[0]
            return '(.comp %s %d %s)' % (m.expr(n.elt), m.var(g.target.id), m.expr(g.iter))
        if isinstance(n, ast.Call):
            return m.call(n)
        m.fail('expression outside the fragment', n)

    def call(self, n):
        m = self
        f = n.func
        if n.keywords or any(isinstance(a, ast.Starred) for a in n.args):
            m.fail('keyword / star arguments in a pure call', n)
        if isinstance(f, ast.Name):
            if f.id in m.vars:
                return '(.callVal %s %s)' % (m.expr(f), m.exprs(n.args))
            if f.id in ('isinstance', 'hasattr'):
                if m.mod.count.get(f.id, 0) or len(n.args) != 2:
                    m.fail('%s outside the fragment' % f.id, n)
                if f.id == 'hasattr':
                    a = n.args[1]
                    if not (isinstance(a, ast.Constant) and isinstance(a.value, str)):
                        m.fail('hasattr with a computed name', n)
                    return '(.hasattr %s %s)' % (m.expr(n.args[0]), lean_str(a.value))
                c = n.args[1]
                cs = c.elts if isinstance(c, ast.Tuple) else [c]
                return '(.isinstance %s [%s])' % (m.expr(n.args[0]),
                                                  ', '.join(lean_str(m.class_name(x, n)) for x in cs))
            return '(.call %s %s)' % (lean_str(m.callee(f.id, n)), m.exprs(n.args))
        if isinstance(f, ast.Attribute):
            if m.is_self_call(n):
                m.fail('a method call on self inside an expression (it may change the heap)', n)
            if f.attr in MUTATORS or f.attr == 'copy':
                m.fail('a mutating / allocating method inside an expression', n)
            return '(.method %s %s %s)' % (m.expr(f.value), lean_str(f.attr), m.exprs(n.args))
        m.fail('call outside the fragment', n)

    # ---- statements ----------------------------------------------------------------------
    def block(self, stmts):
        out = '.nil'
        for s in reversed(stmts):
            out = '(.cons %s %s)' % (self.stmt(s), out)
        return out

    def heap_call(self, mode, c, n):
        """`self.m(args, k=v, **d)` / `self.__class__(**d)`"""
        m = self
        if any(isinstance(a, ast.Starred) for a in c.args):
            m.fail('star arguments', n)
        kws = [k for k in c.keywords if k.arg is not None]
        stars = [k for k in c.keywords if k.arg is None]
        if len(stars) > 1 or (stars and c.keywords[-1] is not stars[0]):
            m.fail('keyword arguments outside the fragment', n)
        kstar = 'Option.none'
        if stars:
            v = stars[0].value
            if not (isinstance(v, ast.Name) and v.id in m.dict_locals | ({m.kwarg} if m.kwarg else set())):
                m.fail('** of something that is not a dict local', n)
            kstar = '(some %d)' % m.var(v.id)
        for a in list(c.args) + [k.value for k in kws]:
            for sub in ast.walk(a):
                if m.is_self_call(sub):
                    m.fail('nested method call on self', n)
        return '(.callH %s (.var %d) %s %s [%s] %s %s)' % (
            mode, m.var('self'), lean_str(c.func.attr), m.exprs(c.args),
            ', '.join(lean_nat_list(k.arg) for k in kws), m.exprs([k.value for k in kws]), kstar)

    def stmt(self, n):
        m = self
        if isinstance(n, ast.Assign):
            if len(n.targets) != 1:
                m.fail('chained assignment', n)
            t = n.targets[0]
            if isinstance(t, ast.Attribute):
                if isinstance(n.value, ast.Dict) and not n.value.keys:
                    return '(.setAttrNewDict %d %s)' % (m.var(t.value.id), lean_str(t.attr))
                return '(.setAttr %d %s %s)' % (m.var(t.value.id), lean_str(t.attr), m.expr(n.value))
            if isinstance(t, ast.Subscript):
                if isinstance(t.slice, ast.Slice):
                    m.fail('slice assignment', n)
                return '(.setAttrItem %d %s %s %s)' % (m.var(t.value.value.id), lean_str(t.value.attr),
                                                      m.expr(t.slice), m.expr(n.value))
            v = n.value
            if isinstance(t, ast.Name) and isinstance(v, ast.Call) and isinstance(v.func, ast.Attribute) \
                    and v.func.attr == 'copy' and not v.args and not v.keywords:
                return '(.copyDict %d %s)' % (m.var(t.id), m.expr(v.func.value))
            if isinstance(t, ast.Name) and m.is_self_call(v):
                return m.heap_call('(.bind %d)' % m.var(t.id), v, n)
            if isinstance(t, ast.Name):
                return '(.assign (.one %d) %s)' % (m.var(t.id), m.expr(v))
            if isinstance(t, ast.Tuple) and all(isinstance(e, ast.Name) for e in t.elts):
                return '(.assign (.tup [%s]) %s)' % (', '.join(str(m.var(e.id)) for e in t.elts), m.expr(v))
            m.fail('assignment target outside the fragment', n)
        if isinstance(n, ast.AugAssign):
            x = m.var(n.target.id)
            return '(.assign (.one %d) (.add (.var %d) %s))' % (x, x, m.expr(n.value))
        if isinstance(n, ast.If):
            return '(.ite %s %s %s)' % (m.expr(n.test), m.block(n.body), m.block(n.orelse))
        if isinstance(n, ast.For):
            body = m.block(n.body)
            k = len(m.loops)
            m.loops.append((body, n))
            return '(.for %d %s %s_for%d)' % (m.var(n.target.id), m.expr(n.iter), m.lean, k)
        if isinstance(n, ast.Return):
            if isinstance(n.value, ast.Dict) and not n.value.keys:
                return '(.ret .emptyDict)'
            if n.value is not None and m.is_self_call(n.value):
                return m.heap_call('.ret', n.value, n)
            return '(.ret %s)' % (m.expr(n.value) if n.value is not None else '.none')
        if isinstance(n, ast.Expr):
            c = n.value
            if isinstance(c, ast.Call) and isinstance(c.func, ast.Attribute) and c.func.attr in MUTATORS \
                    and isinstance(c.func.value, ast.Name) and c.func.value.id in m.vars and c.func.value.id != 'self':
                if c.keywords:
                    m.fail('keyword arguments of a mutator', n)
                return '(.mutate %d %s %s)' % (m.var(c.func.value.id), lean_str(c.func.attr), m.exprs(c.args))
            if m.is_self_call(c):
                return m.heap_call('.drop', c, n)
            return '(.expr %s)' % m.expr(c)
        if isinstance(n, ast.FunctionDef):
            return '(.assign (.one %d) (.glob "@ident"))' % m.var(n.name)
        if isinstance(n, (ast.ImportFrom, ast.Pass)):
            return '.pass'
        m.fail('statement outside the fragment', n)


def _emit(out, f, title):
    out.append('/-! ### `%s(%s)`: locals %s -/' % (
        title, ', '.join(('**' if p == f.kwarg else '') + p for p in f.params),
        ', '.join('%s=%d' % (v, i) for i, v in enumerate(f.vars))))
    out.append('')
    for k, (body, node) in enumerate(f.loops):
        out.append('/-- body of `%s` -/' % _doc(node))
        out.append('def %s_for%d : Block :=\n  %s' % (f.lean, k, body))
        out.append('')
    for k, (term, node) in enumerate(f.stmts):
        out.append('/-- `%s` -/' % _doc(node))
        out.append('def %s_s%d : Stmt :=\n  %s' % (f.lean, k, term))
        out.append('')
    blk = '.nil'
    for k in reversed(range(len(f.stmts))):
        blk = '(.cons %s_s%d %s)' % (f.lean, k, blk)
    out.append('def %s : Block :=\n  %s' % (f.lean, blk))
    out.append('')
    out.append('def %s_params : List String := [%s]' % (f.lean, ', '.join(lean_str(p) for p in f.params)))
    out.append('def %s_paramKeys : List (List Nat) := [%s]' % (f.lean, ', '.join(lean_nat_list(p) for p in f.params)))
    out.append('def %s_defaults : List (Option Val) := [%s]' % (
        f.lean, ', '.join('Option.none' if d is None else 'some %s' % d for d in f.defaults)))
    out.append('def %s_kwarg : Bool := %s' % (f.lean, 'true' if f.kwarg else 'false'))
    out.append('')


def extract(repo):
    out = [HEADER % 'pysel', 'import SqlObjVerif.Model.PySel', '',
           'namespace SqlObjVerif.PySel.Extracted', 'open SqlObjVerif.PyExpr (Val Target)', 'open SqlObjVerif.PySel', '']
    sb = Module(repo, SB)
    tab = []
    for cname, pyname in METHODS:
        if cname not in sb.classes:
            raise ExtractError('class %s not found' % cname)
        c = sb.classes[cname]
        if sum(1 for st in c.body
               if (isinstance(st, ast.FunctionDef) and st.name == pyname)
               or (isinstance(st, ast.Assign) and any(isinstance(t, ast.Name) and t.id == pyname for t in st.targets))) != 1:
            raise ExtractError('%s.%s is not bound exactly once in the class body' % (cname, pyname))
        f = SFn(sb, find_func(c, pyname), lean_name(cname, pyname), '%s.%s' % (cname, pyname), True)
        _emit(out, f, '%s.%s' % (cname, pyname))
        tab.append((cname, pyname, f.lean))
    for name in FUNCTIONS:
        if not sb.once(name) or name not in sb.functions:
            raise ExtractError('function %s is not defined exactly once at module level' % name)
        f = SFn(sb, sb.functions[name], lean_name(None, name), name, False)
        _emit(out, f, name)
    # Select must not override / inherit anything else the model resolves: its bases and the names its body binds
    sel = sb.classes['Select']
    out.append('/-- the base classes of `Select` -/')
    out.append('def selectBases : List String := [%s]' % ', '.join(lean_str(ast.unparse(b)) for b in sel.bases))
    out.append('')
    out.append('/-- every name the body of `Select` binds -/')
    names = []
    for st in sel.body:
        if isinstance(st, ast.FunctionDef):
            names.append(st.name)
        elif isinstance(st, ast.Assign):
            names += [t.id for t in st.targets if isinstance(t, ast.Name)]
    out.append('def selectNames : List String := [%s]' % ', '.join(lean_str(x) for x in names))
    out.append('')
    out.append('/-- (class, method) -> translated program -/')
    out.append('def methodTable : List ((String × String) × Block) :=\n  [%s]' % ',\n   '.join(
        '((%s, %s), %s)' % (lean_str(c), lean_str(p), l) for c, p, l in tab))
    out.append('')
    out.append('end SqlObjVerif.PySel.Extracted')
    return '\n'.join(out) + '\n'
