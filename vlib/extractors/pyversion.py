"""TRANSLATOR: the whole of sqlobject/versioning/__init__.py -> PyVersion blocks.

Every function of the module (`Version.restore / nextVersion / getChangedFields / select / __getattr__`, `getColumns`,
`Versioning.__init__ / __addtoclass__ / createVersionTable / createTable / rowUpdate / __get__`) is translated
statement by statement into the deep embedding of `lean/SqlObjVerif/Model/PyVersion.lean`.  Anything outside the
fragment — including a new / missing / renamed function, another top-level statement, other base classes or imports —
raises ExtractError (the framework then searches for a failing input and reports).  Conventions:
  * the first parameter of a method (`self`, or `cls` of a `@classmethod`) is `.self`; the other parameters (`*args`
    counts as one, a list value; `**kw` as one, a dict value) and the locals are numbered in order of first binding,
    parameters first; temporaries of hoisted calls come last (`<f>_nargs`, `<f>_nlocals`); a behaviour-preserving
    rename of a local gives the same term;
  * names: a parameter / local -> `.var`; a name imported by the module, defined by it, or the builtin `type`
    -> `.global "<name>"`; `<imported name>.a.b` -> `.global "<name>.a.b"`;
  * pure calls (expressions): `dict(e)`, `getattr(a, b[, c])`, `e.items()`, `e.endswith("lit")`, `e.title()`,
    `isinstance(e, C)`; `e[:-n]`, `a + b`, comparisons;
  * every other call `recv.m(…)` goes through the interpreter's `call`, `f(…)` of a local / global through `callFn`,
    `super(<the class>, self).m(…)` through `super`, a call of a module-level function of this module through `proc`;
    a call nested in an expression is hoisted to a statement of its own (`tmp = CALL`) — only when everything
    evaluated before it in the statement is a constant, a name or a global (so the order of evaluation is kept), and
    never out of `and` / `or`;
  * `x[k] = v`, `del x[k]`, `x.append(v)`, `x.update(d)` only for a local `x`; such a local is never aliased
    (`y = x`), never mutated after it was used as a value (passed, stored, returned), passed at most once per call;
    a module-level function never rebinds its parameters;
  * the body of the n-th loop of a function (source order) becomes its own definition `<f>_loop<n>`.
"""
import ast
from . import ExtractError, parse, strip_doc, HEADER, lean_str

TARGET = 'PyVersion'
REL = 'sqlobject/versioning/__init__.py'
IMPORTS = ['from datetime import datetime', 'from sqlobject import col, events, SQLObject, AND']
LAYOUT = [('class', 'Version', ['SQLObject'], ['restore', 'nextVersion', 'getChangedFields', 'select', '__getattr__']),
          ('def', 'getColumns', None, None),
          ('class', 'Versioning', ['object'], ['__init__', '__addtoclass__', 'createVersionTable', 'createTable',
                                               'rowUpdate', '__get__'])]
BUILTINS = ('type',)
LEAN_NAMES = {('Version', 'restore'): 'restore', ('Version', 'nextVersion'): 'nextVersion',
              ('Version', 'getChangedFields'): 'getChangedFields', ('Version', 'select'): 'select',
              ('Version', '__getattr__'): 'getattr', (None, 'getColumns'): 'getColumns',
              ('Versioning', '__init__'): 'init', ('Versioning', '__addtoclass__'): 'addtoclass',
              ('Versioning', 'createVersionTable'): 'createVersionTable', ('Versioning', 'createTable'): 'createTable',
              ('Versioning', 'rowUpdate'): 'rowUpdate', ('Versioning', '__get__'): 'get'}
CMP = {ast.Eq: '.eq', ast.NotEq: '.ne', ast.Gt: '.gt', ast.Lt: '.lt', ast.GtE: '.ge', ast.LtE: '.le'}
MUTATORS = ('append', 'update')
OTHER_MUTATORS = ('extend', 'pop', 'clear', 'remove', 'insert', 'setdefault', 'sort', 'reverse', 'popitem', 'add',
                  'discard')


def _strs(path):
    return '[' + ', '.join(lean_str(p) for p in path) + ']'


def _attr_chain(n):
    path = []
    while isinstance(n, ast.Attribute):
        path.append(n.attr)
        n = n.value
    return n, list(reversed(path))


def _is_none(n):
    return isinstance(n, ast.Constant) and n.value is None


class Func(object):
    def __init__(self, fn, owner, imported, defined, procs):
        self.fn = fn
        self.name = fn.name
        self.owner = owner            # class name or None
        self.imported = imported      # names the module imports
        self.defined = defined        # classes / functions the module defines
        self.procs = procs            # module-level functions
        a = fn.args
        decos = [ast.unparse(d) for d in fn.decorator_list]
        if a.kwonlyargs or a.posonlyargs or a.kw_defaults or decos not in ([], ['classmethod']):
            raise ExtractError('unexpected signature of %s' % fn.name)
        names = [x.arg for x in a.args]
        if owner is None:
            if decos:
                raise ExtractError('decorated function %s' % fn.name)
            self.me = None
        else:
            if not names or names[0] != ('cls' if decos else 'self'):
                raise ExtractError('%s: unexpected first parameter' % fn.name)
            self.me = names.pop(0)
        self.params = names
        self.vararg = a.vararg.arg if a.vararg else None
        self.kwparam = a.kwarg.arg if a.kwarg else None
        if self.vararg:
            self.params.append(self.vararg)
        if self.kwparam:
            self.params.append(self.kwparam)
        if len(set(self.params)) != len(self.params):
            raise ExtractError('%s: duplicate parameter' % fn.name)
        self.vars = list(self.params)
        self.loops = []
        body = strip_doc(fn.body)
        self._collect(body)
        self.defaults = [self.expr(d) for d in a.defaults]
        self.body = self.block(body)

    def fail(self, what, n=None):
        raise ExtractError('%s: %s%s' % (self.name, what, (': ' + ast.unparse(n).split('\n')[0]) if n is not None else ''))

    # ---- names, aliasing discipline ------------------------------------------------------
    def _collect(self, stmts):
        m = self
        muts = {}          # local -> [(lineno, loop ids)]
        uses = {}          # local -> [(lineno, loop ids)]   (used as a value)
        fresh = {}         # local -> [(lineno, loop ids)]   (bound to a new container)
        rebinds = set()

        def bind(name, lineno):
            if name == m.me:
                m.fail('%s is rebound' % m.me)
            rebinds.add(name)
            if name not in m.vars:
                m.vars.append(name)

        class V(ast.NodeVisitor):
            loops = ()
            counter = [0]

            def visit_Assign(s, n):
                if len(n.targets) != 1:
                    m.fail('chained assignment', n)
                t = n.targets[0]
                if isinstance(t, ast.Name):
                    bind(t.id, n.lineno)
                    v = n.value
                    if isinstance(v, (ast.Dict, ast.List)) or (
                            isinstance(v, ast.Call) and isinstance(v.func, ast.Name) and v.func.id == 'dict'):
                        fresh.setdefault(t.id, []).append((n.lineno, s.loops))
                    s.visit(n.value)
                    return
                if isinstance(t, ast.Subscript) and isinstance(t.value, ast.Name):
                    muts.setdefault(t.value.id, []).append((n.lineno, s.loops))
                    s.visit(t.slice)
                    s.visit(n.value)
                    return
                if isinstance(t, (ast.Tuple, ast.List, ast.Starred)):
                    m.fail('unpacking assignment', n)
                s.generic_visit(n)

            def visit_AugAssign(s, n):
                m.fail('augmented assignment', n)

            visit_AnnAssign = visit_AugAssign

            def visit_Delete(s, n):
                for t in n.targets:
                    if not (isinstance(t, ast.Subscript) and isinstance(t.value, ast.Name)
                            and not isinstance(t.slice, (ast.Slice, ast.Tuple))):
                        m.fail('del of something that is not `local[key]`', n)
                    muts.setdefault(t.value.id, []).append((n.lineno, s.loops))
                    s.visit(t.slice)

            def visit_Call(s, n):
                f = n.func
                if isinstance(f, ast.Attribute) and isinstance(f.value, ast.Name) and f.value.id in m.vars \
                        and f.value.id != m.me:
                    if f.attr in MUTATORS:
                        muts.setdefault(f.value.id, []).append((n.lineno, s.loops))
                        for a in n.args:
                            s.visit(a)
                        for k in n.keywords:
                            s.visit(k.value)
                        return
                    if f.attr in OTHER_MUTATORS:
                        m.fail('mutation of a container outside the fragment', n)
                if isinstance(f, ast.Name) and f.id in m.procs and f.id not in m.vars:
                    seen = set()
                    for a in n.args:
                        if isinstance(a, ast.Name) and a.id in m.vars:
                            if a.id in seen:
                                m.fail('a local is passed twice', n)
                            seen.add(a.id)
                            muts.setdefault(a.id, []).append((n.lineno, s.loops))
                        else:
                            s.visit(a)
                    return
                s.generic_visit(n)

            def visit_Name(s, n):
                if isinstance(n.ctx, ast.Load):
                    uses.setdefault(n.id, []).append((n.lineno, s.loops))

            def visit_Compare(s, n):
                # `k in x` / `x[k]` read the container without creating a second reference to it
                s.visit(n.left)
                for op, c in zip(n.ops, n.comparators):
                    if isinstance(op, (ast.In, ast.NotIn)) and isinstance(c, ast.Name):
                        continue
                    s.visit(c)

            def visit_Subscript(s, n):
                if isinstance(n.ctx, ast.Load) and isinstance(n.value, ast.Name):
                    s.visit(n.slice)
                    return
                s.generic_visit(n)

            def visit_For(s, n):
                ts = n.target.elts if isinstance(n.target, ast.Tuple) else [n.target]
                for t in ts:
                    if not isinstance(t, ast.Name):
                        m.fail('loop target outside the fragment', n)
                    bind(t.id, n.lineno)
                s.visit(n.iter)
                s.counter[0] += 1
                old = s.loops
                s.loops = old + (s.counter[0],)
                for b in n.body:
                    s.visit(b)
                s.loops = old
                if n.orelse:
                    m.fail('for … else')

            def visit_While(s, n):
                m.fail('while loop')

            def visit_FunctionDef(s, n):
                m.fail('nested function')

            visit_Lambda = visit_ClassDef = visit_FunctionDef

            def visit_ListComp(s, n):
                m.fail('comprehension / generator expression', n)

            visit_GeneratorExp = visit_SetComp = visit_DictComp = visit_ListComp

            def visit_NamedExpr(s, n):
                m.fail('walrus')

            def visit_With(s, n):
                m.fail('with statement')

            def visit_Try(s, n):
                m.fail('try statement')

            def visit_Raise(s, n):
                m.fail('raise statement')

            def visit_Global(s, n):
                m.fail('global')

            visit_Nonlocal = visit_Global
            visit_Yield = visit_YieldFrom = visit_Await = visit_Global

            def visit_Break(s, n):
                m.fail('break / continue')

            visit_Continue = visit_Break

            def visit_ImportFrom(s, n):
                m.fail('import')

            visit_Import = visit_ImportFrom

        v = V()
        for st in stmts:
            v.visit(st)
        if self.owner is None:
            for p in self.params:
                if p in rebinds:
                    self.fail('a module-level function rebinds its parameter %s' % p)
        for x, ms in muts.items():
            if x not in self.vars:
                self.fail('mutation of %s, which is not a local' % x)
            for (ln, _) in uses.get(x, []):
                if any(ml > ln for (ml, _) in ms):
                    self.fail('%s is changed after it was used as a value (line %d)' % (x, ln))
            for (ul, uloops) in uses.get(x, []):
                for (ml, mloops) in ms:
                    common = [l for l in uloops if l in mloops]
                    if common:
                        # a use and a mutation in the same loop: a fresh container must be bound inside that loop
                        inner = common[-1]
                        if not any(inner in floops and fl < ml for (fl, floops) in fresh.get(x, [])):
                            self.fail('%s is used and changed inside one loop without being rebound to a new container' % x)
        self.mutated = set(muts)

    def var(self, name):
        if name in self.vars:
            return self.vars.index(name)
        self.fail('name %s is not a parameter or local' % name)

    def temp(self):
        self.vars.append('<tmp%d>' % len(self.vars))
        return len(self.vars) - 1

    # ---- expressions ---------------------------------------------------------------------
    def const(self, n):
        if isinstance(n, ast.Constant):
            v = n.value
            if v is None:
                return '.none'
            if v is True or v is False:
                return '(.bool %s)' % ('true' if v else 'false')
            if isinstance(v, int) and v >= 0:
                return '(.nat %d)' % v
            if isinstance(v, str):
                return '(.str %s)' % lean_str(v)
        self.fail('constant outside the fragment', n)

    def is_global_name(self, name):
        return name not in self.vars and name != self.me and (
            name in self.imported or name in self.defined or name in BUILTINS)

    def is_stable(self, n):
        """constants, names, globals: evaluating them before or after a call makes no difference"""
        if isinstance(n, (ast.Constant, ast.Name)):
            return True
        if isinstance(n, ast.Attribute):
            root, _ = _attr_chain(n)
            return isinstance(root, ast.Name) and root.id in self.imported and self.is_global_name(root.id)
        if isinstance(n, ast.Tuple):
            return all(self.is_stable(e) for e in n.elts)
        return False

    def is_pure_call(self, n):
        """calls that are expressions of the fragment"""
        if not isinstance(n, ast.Call):
            return False
        f = n.func
        if any(isinstance(a, ast.Starred) for a in n.args) or n.keywords:
            return False
        if isinstance(f, ast.Name) and f.id not in self.vars:
            if f.id == 'dict' and len(n.args) == 1:
                return True
            if f.id == 'getattr' and len(n.args) in (2, 3):
                return True
            if f.id == 'isinstance' and len(n.args) == 2:
                return True
        if isinstance(f, ast.Attribute):
            if f.attr in ('items', 'title') and not n.args:
                return True
            if f.attr == 'endswith' and len(n.args) == 1 and isinstance(n.args[0], ast.Constant) \
                    and isinstance(n.args[0].value, str):
                return True
        return False

    def needs_hoist(self, n):
        for x in ast.walk(n):
            if isinstance(x, ast.Call) and not self.is_pure_call(x):
                return True
        return False

    def seq(self, nodes):
        """translate sub-expressions evaluated left to right -> (statements that run first, [expressions])"""
        pre, out, stable = [], [], True
        for i, n in enumerate(nodes):
            if self.needs_hoist(n):
                if not stable:
                    self.fail('a call nested after an expression that reads an attribute', n)
            p, e = self.hoist(n)
            pre += p
            out.append(e)
            # a hoisted call has become a temporary: what follows may be hoisted as well
            if not (self.is_stable(n) or (isinstance(n, ast.Call) and not self.is_pure_call(n))):
                stable = False
        return pre, out

    def exprs_of(self, es):
        out = '.nil'
        for e in reversed(es):
            out = '(.cons %s %s)' % (e, out)
        return out

    def hoist(self, n):
        """-> (statements that run first, pure expression)"""
        if not self.needs_hoist(n):
            return [], self.expr(n)
        if isinstance(n, ast.Call) and not self.is_pure_call(n):
            t = self.temp()
            pre, st = self.call_stmt('(some %d)' % t, n)
            return pre + [st], '(.var %d)' % t
        # a pure constructor around nested calls
        if isinstance(n, ast.Dict) and all(k is not None for k in n.keys):
            flat = []
            for k, v in zip(n.keys, n.values):
                flat += [k, v]
            pre, es = self.seq(flat)
            return pre, '(.dictLit %s %s)' % (self.exprs_of(es[0::2]), self.exprs_of(es[1::2]))
        if isinstance(n, ast.Subscript) and not isinstance(n.slice, (ast.Slice, ast.Tuple)):
            pre, es = self.seq([n.value, n.slice])
            return pre, '(.subscript %s %s)' % (es[0], es[1])
        if isinstance(n, ast.Attribute):
            pre, e = self.hoist(n.value)
            return pre, '(.attr %s %s)' % (e, lean_str(n.attr))
        self.fail('a call nested in an expression outside the fragment', n)

    def expr(self, n):
        if isinstance(n, ast.Name):
            if n.id == self.me:
                return '.self'
            if n.id in self.vars:
                return '(.var %d)' % self.var(n.id)
            if self.is_global_name(n.id):
                return '(.global %s)' % lean_str(n.id)
            self.fail('unknown name %s' % n.id)
        if isinstance(n, ast.Constant):
            return '(.const %s)' % self.const(n)
        if isinstance(n, ast.Attribute):
            root, path = _attr_chain(n)
            if isinstance(root, ast.Name) and root.id in self.imported and self.is_global_name(root.id):
                return '(.global %s)' % lean_str('.'.join([root.id] + path))
            return '(.attr %s %s)' % (self.expr(n.value), lean_str(n.attr))
        if isinstance(n, ast.Tuple) and isinstance(n.ctx, ast.Load) and len(n.elts) == 2:
            return '(.pair %s %s)' % (self.expr(n.elts[0]), self.expr(n.elts[1]))
        if isinstance(n, ast.Tuple) and isinstance(n.ctx, ast.Load) and len(n.elts) == 1:
            return '(.tuple1 %s)' % self.expr(n.elts[0])
        if isinstance(n, ast.List) and isinstance(n.ctx, ast.Load):
            return '(.listLit %s)' % self.exprs_of([self.expr(e) for e in n.elts])
        if isinstance(n, ast.Dict) and all(k is not None for k in n.keys):
            return '(.dictLit %s %s)' % (self.exprs_of([self.expr(k) for k in n.keys]),
                                        self.exprs_of([self.expr(v) for v in n.values]))
        if isinstance(n, ast.Subscript):
            sl = n.slice
            if isinstance(sl, ast.Slice):
                if sl.lower is None and sl.step is None and isinstance(sl.upper, ast.UnaryOp) \
                        and isinstance(sl.upper.op, ast.USub) and isinstance(sl.upper.operand, ast.Constant) \
                        and isinstance(sl.upper.operand.value, int) and not isinstance(sl.upper.operand.value, bool) \
                        and sl.upper.operand.value > 0:
                    return '(.dropRight %s %d)' % (self.expr(n.value), sl.upper.operand.value)
                self.fail('slice outside the fragment', n)
            if not isinstance(sl, ast.Tuple):
                return '(.subscript %s %s)' % (self.expr(n.value), self.expr(sl))
        if isinstance(n, ast.BinOp) and isinstance(n.op, ast.Add):
            return '(.concat %s %s)' % (self.expr(n.left), self.expr(n.right))
        if isinstance(n, ast.Compare) and len(n.ops) == 1 and type(n.ops[0]) in CMP:
            return '(.cmp %s %s %s)' % (CMP[type(n.ops[0])], self.expr(n.left), self.expr(n.comparators[0]))
        if isinstance(n, ast.Call) and self.is_pure_call(n):
            f = n.func
            if isinstance(f, ast.Name) and f.id == 'dict':
                return '(.dictOf %s)' % self.expr(n.args[0])
            if isinstance(f, ast.Name) and f.id == 'getattr':
                if len(n.args) == 2:
                    return '(.getattr %s %s)' % (self.expr(n.args[0]), self.expr(n.args[1]))
                return '(.getattrD %s %s %s)' % tuple(self.expr(a) for a in n.args)
            if isinstance(f, ast.Attribute) and f.attr == 'items':
                return '(.items %s)' % self.expr(f.value)
            if isinstance(f, ast.Attribute) and f.attr == 'title':
                return '(.title %s)' % self.expr(f.value)
            if isinstance(f, ast.Attribute) and f.attr == 'endswith':
                return '(.endswith %s %s)' % (self.expr(f.value), lean_str(n.args[0].value))
        if isinstance(n, ast.Call):
            self.fail('a call must be hoistable to a statement of its own', n)
        self.fail('expression outside the fragment', n)

    def cond(self, n):
        if self.needs_hoist(n):
            self.fail('a call inside a condition that cannot be hoisted', n)
        if isinstance(n, ast.UnaryOp) and isinstance(n.op, ast.Not):
            return '(.not %s)' % self.cond(n.operand)
        if isinstance(n, ast.BoolOp):
            op = 'and' if isinstance(n.op, ast.And) else 'or'
            parts = [self.cond(v) for v in n.values]
            out = parts[-1]
            for p in reversed(parts[:-1]):
                out = '(.%s %s %s)' % (op, p, out)
            return out
        if isinstance(n, ast.Compare):
            if len(n.ops) != 1:
                self.fail('chained comparison', n)
            op, rhs = n.ops[0], n.comparators[0]
            if isinstance(op, ast.Is):
                if _is_none(rhs):
                    return '(.isNone %s)' % self.expr(n.left)
                return '(.is %s %s)' % (self.expr(n.left), self.expr(rhs))
            if isinstance(op, ast.IsNot):
                if _is_none(rhs):
                    return '(.isNotNone %s)' % self.expr(n.left)
                return '(.not (.is %s %s))' % (self.expr(n.left), self.expr(rhs))
            if isinstance(op, ast.In):
                return '(.inOp %s %s)' % (self.expr(n.left), self.expr(rhs))
            if isinstance(op, ast.NotIn):
                return '(.not (.inOp %s %s))' % (self.expr(n.left), self.expr(rhs))
            if type(op) in CMP:
                return '(.truthy %s)' % self.expr(n)
            self.fail('comparison outside the fragment', n)
        if isinstance(n, ast.Call) and isinstance(n.func, ast.Name) and n.func.id == 'isinstance' \
                and n.func.id not in self.vars and len(n.args) == 2 and not n.keywords:
            root, path = _attr_chain(n.args[1])
            if isinstance(root, ast.Name) and self.is_global_name(root.id):
                return '(.isinstance %s %s)' % (self.expr(n.args[0]), lean_str('.'.join([root.id] + path)))
            self.fail('isinstance of something that is not a global class', n)
        return '(.truthy %s)' % self.expr(n)

    # ---- statements ----------------------------------------------------------------------
    def _is_super(self, f):
        return (isinstance(f, ast.Attribute) and isinstance(f.value, ast.Call) and isinstance(f.value.func, ast.Name)
                and f.value.func.id == 'super')

    def call_stmt(self, target, c):
        """an effectful call `[target =] c` -> (statements that run first, the call statement)"""
        f = c.func
        rests = [a.value for a in c.args if isinstance(a, ast.Starred)]
        pos = [a for a in c.args if not isinstance(a, ast.Starred)]
        if len(rests) > 1 or (rests and not isinstance(c.args[-1], ast.Starred)):
            self.fail('* must be the last positional argument, once', c)
        stars = [k.value for k in c.keywords if k.arg is None]
        kws = [k for k in c.keywords if k.arg is not None]
        if len(stars) > 1 or (stars and c.keywords[-1].arg is not None):
            self.fail('** must be the last argument, once', c)
        for s in rests + stars:
            if not isinstance(s, ast.Name) or s.id not in self.vars:
                self.fail('* / ** of something that is not a local', c)
        rest = '(some %s)' % self.expr(rests[0]) if rests else 'none'
        star = '(some %s)' % self.expr(stars[0]) if stars else 'none'
        kwn = _strs([k.arg for k in kws])
        argnodes = pos + [k.value for k in kws]
        if self._is_super(f):
            sargs = f.value.args
            if f.value.keywords or [ast.unparse(a) for a in sargs] != [self.owner, self.me]:
                self.fail('super() of something else', c)
            pre, es = self.seq(argnodes)
            return pre, '(.superCall %s %s %s %s %s %s %s %s)' % (
                target, lean_str(self.owner), lean_str(f.attr), self.exprs_of(es[:len(pos)]), rest, kwn,
                self.exprs_of(es[len(pos):]), star)
        if isinstance(f, ast.Name) and f.id in self.procs and f.id not in self.vars and f.id != self.me:
            if rests or stars or kws:
                self.fail('a module-level function is called with positional arguments only', c)
            pre, es = self.seq(argnodes)
            return pre, '(.proc %s %s %s)' % (target, lean_str(f.id), self.exprs_of(es))
        root, path = _attr_chain(f)
        is_global_fn = (isinstance(f, ast.Name) and (f.id in self.vars or self.is_global_name(f.id))) or (
            isinstance(f, ast.Attribute) and isinstance(root, ast.Name) and root.id in self.imported
            and self.is_global_name(root.id))
        if is_global_fn:
            if rests:
                self.fail('call with * outside the fragment', c)
            pre, es = self.seq(argnodes)
            return pre, '(.callFn %s %s %s %s %s %s)' % (target, self.expr(f), self.exprs_of(es[:len(pos)]), kwn,
                                                         self.exprs_of(es[len(pos):]), star)
        if isinstance(f, ast.Attribute):
            pre, es = self.seq([f.value] + argnodes)
            return pre, '(.call %s %s %s %s %s %s %s %s)' % (target, es[0], lean_str(f.attr),
                                                             self.exprs_of(es[1:1 + len(pos)]), rest, kwn,
                                                             self.exprs_of(es[1 + len(pos):]), star)
        self.fail('call outside the fragment', c)

    def loop(self, body):
        idx = len(self.loops)
        self.loops.append(None)
        self.loops[idx] = self.block(body)
        return '%s_loop%d' % (LEAN_NAMES[(self.owner, self.name)], idx)

    def _pure_msg(self, n):
        if isinstance(n, (ast.Constant, ast.Name)):
            return True
        if isinstance(n, ast.Attribute):
            return self._pure_msg(n.value)
        if isinstance(n, ast.BinOp) and isinstance(n.op, (ast.Mod, ast.Add)):
            return self._pure_msg(n.left) and self._pure_msg(n.right)
        if isinstance(n, ast.Tuple):
            return all(self._pure_msg(e) for e in n.elts)
        return False

    def stmt(self, n):
        """-> list of translated statements"""
        if isinstance(n, ast.Pass):
            return ['.pass']
        if isinstance(n, ast.Return):
            if n.value is None or _is_none(n.value):
                return ['.retNone']
            pre, e = self.hoist(n.value)
            return pre + ['(.ret %s)' % e]
        if isinstance(n, ast.Assert):
            if n.msg is not None and not self._pure_msg(n.msg):
                self.fail('assert message outside the fragment', n)
            return ['(.assert %s)' % self.cond(n.test)]
        if isinstance(n, ast.If):
            if self.needs_hoist(n.test):
                if isinstance(n.test, ast.BoolOp) or (isinstance(n.test, ast.UnaryOp)
                                                      and isinstance(n.test.operand, ast.BoolOp)):
                    self.fail('a call inside and / or', n.test)
                neg = isinstance(n.test, ast.UnaryOp) and isinstance(n.test.op, ast.Not)
                pre, e = self.hoist(n.test.operand if neg else n.test)
                c = '(.truthy %s)' % e
                if neg:
                    c = '(.not %s)' % c
                return pre + ['(.ite %s %s %s)' % (c, self.block(n.body), self.block(n.orelse))]
            return ['(.ite %s %s %s)' % (self.cond(n.test), self.block(n.body), self.block(n.orelse))]
        if isinstance(n, ast.Delete):
            out = []
            for t in n.targets:
                out.append('(.delItem %d %s)' % (self.var(t.value.id), self.expr(t.slice)))
            return out
        if isinstance(n, ast.Assign) and len(n.targets) == 1:
            t, v = n.targets[0], n.value
            if isinstance(t, ast.Name):
                if isinstance(v, ast.Name) and v.id in self.mutated:
                    self.fail('alias of the container %s' % v.id, n)
                if isinstance(v, ast.Call) and not self.is_pure_call(v):
                    pre, st = self.call_stmt('(some %d)' % self.var(t.id), v)
                    return pre + [st]
                pre, e = self.hoist(v)
                return pre + ['(.assign %d %s)' % (self.var(t.id), e)]
            if isinstance(t, ast.Attribute):
                # Python: the right-hand side first, then the target object
                pre, e = self.hoist(v)
                if self.needs_hoist(t.value):
                    self.fail('attribute assignment outside the fragment', n)
                return pre + ['(.setAttr %s %s %s)' % (self.expr(t.value), lean_str(t.attr), e)]
            if isinstance(t, ast.Subscript) and isinstance(t.value, ast.Name) \
                    and not isinstance(t.slice, (ast.Slice, ast.Tuple)):
                pre, e = self.hoist(v)
                if self.needs_hoist(t.slice):
                    self.fail('item assignment outside the fragment', n)
                return pre + ['(.setItem %d %s %s)' % (self.var(t.value.id), self.expr(t.slice), e)]
        if isinstance(n, ast.Expr) and isinstance(n.value, ast.Call):
            c, f = n.value, n.value.func
            if isinstance(f, ast.Attribute) and isinstance(f.value, ast.Name) and f.value.id in self.vars \
                    and f.value.id != self.me and f.attr in MUTATORS:
                if len(c.args) != 1 or c.keywords or isinstance(c.args[0], ast.Starred):
                    self.fail('append / update outside the fragment', n)
                pre, e = self.hoist(c.args[0])
                return pre + ['(.%s %d %s)' % (f.attr, self.var(f.value.id), e)]
            if self.is_pure_call(c):
                self.fail('pure call used as a statement', n)
            pre, st = self.call_stmt('none', c)
            return pre + [st]
        if isinstance(n, ast.For) and not n.orelse:
            it, t = n.iter, n.target
            pre, ite = self.hoist(it)
            if isinstance(t, ast.Name):
                return pre + ['(.for1 %d %s %s)' % (self.var(t.id), ite, self.loop(n.body))]
            if isinstance(t, ast.Tuple) and len(t.elts) == 2 and t.elts[0].id != t.elts[1].id:
                return pre + ['(.for2 %d %d %s %s)' % (self.var(t.elts[0].id), self.var(t.elts[1].id), ite,
                                                      self.loop(n.body))]
        self.fail('statement outside the fragment', n)

    def block(self, stmts):
        parts = []
        for s in stmts:
            parts += self.stmt(s)
        out = '.nil'
        for p in reversed(parts):
            out = '(.cons %s\n    %s)' % (p, out)
        return out


def translate(repo):
    tree = parse(repo, REL)
    body = strip_doc(tree.body)
    imports = [ast.unparse(s) for s in body if isinstance(s, (ast.Import, ast.ImportFrom))]
    rest = [s for s in body if not isinstance(s, (ast.Import, ast.ImportFrom))]
    if imports != IMPORTS:
        raise ExtractError('the imports of the module changed: %r' % (imports,))
    imported = set()
    for s in body:
        if isinstance(s, (ast.Import, ast.ImportFrom)):
            for a in s.names:
                imported.add(a.asname or a.name.split('.')[0])
    if len(rest) != len(LAYOUT):
        raise ExtractError('top-level statements of the module changed')
    defined = set(x[1] for x in LAYOUT)
    procs = set(x[1] for x in LAYOUT if x[0] == 'def')
    funcs = []
    for node, (kind, name, bases, methods) in zip(rest, LAYOUT):
        if kind == 'def':
            if not isinstance(node, ast.FunctionDef) or node.name != name:
                raise ExtractError('expected def %s' % name)
            funcs.append(((None, name), Func(node, None, imported, defined, procs)))
            continue
        if not isinstance(node, ast.ClassDef) or node.name != name or node.decorator_list or node.keywords:
            raise ExtractError('expected class %s' % name)
        if [ast.unparse(b) for b in node.bases] != bases:
            raise ExtractError('%s no longer derives from %s alone' % (name, bases))
        cbody = strip_doc(node.body)
        if not all(isinstance(s, ast.FunctionDef) for s in cbody) or [s.name for s in cbody] != methods:
            raise ExtractError('the body of class %s is no longer exactly the methods %s' % (name, methods))
        for s in cbody:
            funcs.append(((name, s.name), Func(s, name, imported, defined, procs)))
    return funcs


def extract(repo):
    funcs = translate(repo)
    lines = [HEADER % 'pyversion', 'import SqlObjVerif.Model.PyVersion', '',
             'namespace SqlObjVerif.PyVer.Extracted', 'open SqlObjVerif.PyVer', '']
    for key, m in funcs:
        ln = LEAN_NAMES[key]
        where = ('%s.%s' % key) if key[0] else key[1]
        for i in reversed(range(len(m.loops))):
            lines += ['/-- body of loop %d of `%s` -/' % (i, where),
                      'def %s_loop%d : Block :=\n  %s' % (ln, i, m.loops[i]), '']
        lines += ['/-- `%s(%s)`, translated; locals: %s -/'
                  % (where, ', '.join(([m.me] if m.me else []) + m.params),
                     ', '.join('%s=%d' % (v, i) for i, v in enumerate(m.vars)) or '-'),
                  'def %sProg : Block :=\n  %s' % (ln, m.body),
                  'def %s_nargs : Nat := %d' % (ln, len(m.params)),
                  'def %s_nlocals : Nat := %d' % (ln, len(m.vars) - len(m.params)),
                  'def %s_defaults : List Expr := [%s]' % (ln, ', '.join(m.defaults)), '']
    lines.append('end SqlObjVerif.PyVer.Extracted')
    return '\n'.join(lines) + '\n'
