"""TRANSLATOR: the schema-generation code of sqlobject -> a PyDdl program (class table + functions).

Translated on every run, statement by statement, into the deep embedding of `lean/SqlObjVerif/Model/PyDdl.lean`:
  * sqlobject/col.py      — for every modelled `SO…Col` class and its ancestors the methods `_extraSQL`, `_sqlType`,
                            `_<dialect>Type`, `<dialect>CreateSQL`, `<dialect>CreateReferenceConstraint`,
                            `_check_case_sensitive`, `_checkType`, `_getlength`, `addSQLAttrs`, `_idType`
                            and the class constant `SOKeyCol.key_type`;
  * sqlobject/dbconnection.py (`DBAPI`) and the seven connection classes — `createTableSQL`, `createColumns`,
                            `createReferenceConstraints`, `_SO_createJoinTableSQL`, `createIDColumn`, `_createIDColumn`,
                            `createColumn`, `createReferenceConstraint`, `joinSQLType`;
  * sqlobject/styles.py   — the three style classes (all methods but `__init__`) and the module functions
                            `mixedToUnder`, `mixedToUnderSub`, `capword`, `lowerword`, `underToMixed`;
  * sqlobject/main.py     — `SQLObject._getJoinsToCreate`, `createJoinTablesSQL`, and (world-threading reading,
                            `Model/PyDdlW.lean`) `createTable`, `dropTable`, `createJoinTables`, `dropJoinTables`,
                            `createIndexes`; with the connection classes' `createTable`, `dropTable`,
                            `_SO_createJoinTable`, `_SO_dropJoinTable`, `_SO_createIndex`, `createIndexSQL`, `addColumn`,
                            `delColumn`, `recreateTableWithoutColumn`;
  * sqlobject/index.py    — `SODatabaseIndex.<dialect>CreateIndexSQL` (the aliases `x = y = sqliteCreateIndexSQL` bind
                            the same function in the class table).
Anything outside the fragment raises ExtractError.  Conventions:
  * classes, method names and functions are numbered (`C_<class>`, `M_<name>`, `F_<name>`); the class table lists for
    every class its linearised bases (single inheritance is checked) and its OWN definitions — which definition a
    call reaches is decided by `Prog.resolve` in Lean.  The `res_…` theorems emitted at the end are conveniences
    (each is checked by `rfl`): a wrong one fails the build;
  * locals are numbered in order of first binding, parameters first; a comprehension variable / lambda parameter gets
    a slot of its own that is visible only inside the comprehension / lambda: renaming a local gives the same term;
  * every top-level statement of a function is its own definition `<f>_s<k>`; the n-th `for` body is `<f>_for<n>`;
  * `recv.m(args)`: `m` one of the str / match-object builtins (join, startswith, endswith, lower, upper, split,
    group) or not a method name of the program -> `.bmeth` (builtin, or a method of an object that is not translated:
    `Iface.extMeth`); otherwise `.mcall`.  `x.append(e)` as a statement on a local -> `.append`;
  * `x += e` is `x = x + e`; `self.connection = connection` (the only attribute assignment accepted, and only as the
    first statement of a `<dialect>CreateSQL` method) rebinds `self` inside the call;
  * `fmt % a` needs a literal format string, split here into pieces (text, %s, %i/%d, %(key)s, %%);
  * `max(map(self.m, xs))` is translated as `max([self.m(v) for v in xs])`;
  * `raise E(msg)` / `assert c, msg`: the message is not evaluated;
  * a call named in EFFECT_NAMES (`query`, `send`, the stateful methods) must be the WHOLE expression of an expression
    statement, an assignment or a return; a call named in READ_NAMES (`tableExists`) may only occur in the test of an
    `if`, under `and` / `or` / `not`; keyword arguments of a program method are put in the order of its signature (all
    definitions of a method name must agree on it; skipped parameters need constant defaults), keyword arguments of
    any other method are appended to the positional ones; `x.extend(e)` on a local is `x = x + e`;
  * `RE.sub(f, s)` needs `RE = re.compile(<literal>)` at module level with one of the two patterns of styles.py.
"""
import ast
import re as _re
from . import ExtractError, parse, find_class, find_func, strip_doc, HEADER, lean_str, lean_nat_list

TARGET = 'PyDdl'

DIALECTS = ['sqlite', 'mysql', 'postgres', 'firebird', 'mssql', 'sybase', 'maxdb']

COL_CLASSES = ['SOCol', 'SOStringLikeCol', 'SOStringCol', 'SOUnicodeCol', 'SOIntCol', 'SOTinyIntCol', 'SOSmallIntCol',
               'SOMediumIntCol', 'SOBigIntCol', 'SOBoolCol', 'SOFloatCol', 'SOKeyCol', 'SOForeignKey', 'SOEnumCol',
               'SODateTimeCol', 'SODateCol', 'SOTimeCol', 'SOTimestampCol', 'SODecimalCol', 'SOCurrencyCol',
               'SOBLOBCol', 'SOPickleCol', 'SOUuidCol', 'SOJSONCol']
COL_METHODS = (['_extraSQL', '_sqlType', '_check_case_sensitive', '_checkType', '_getlength', 'addSQLAttrs', '_idType']
               + ['_%sType' % d for d in DIALECTS] + ['%sCreateSQL' % d for d in DIALECTS]
               + ['%sCreateReferenceConstraint' % d for d in DIALECTS])
CONN_CLASSES = [
    ('sqlobject/dbconnection.py', 'DBAPI'),
    ('sqlobject/sqlite/sqliteconnection.py', 'SQLiteConnection'),
    ('sqlobject/mysql/mysqlconnection.py', 'MySQLConnection'),
    ('sqlobject/postgres/pgconnection.py', 'PostgresConnection'),
    ('sqlobject/firebird/firebirdconnection.py', 'FirebirdConnection'),
    ('sqlobject/mssql/mssqlconnection.py', 'MSSQLConnection'),
    ('sqlobject/sybase/sybaseconnection.py', 'SybaseConnection'),
    ('sqlobject/maxdb/maxdbconnection.py', 'MaxdbConnection'),
]
CONN_METHODS = ['createTableSQL', 'createColumns', 'createReferenceConstraints', '_SO_createJoinTableSQL',
                'createIDColumn', '_createIDColumn', 'createColumn', 'createReferenceConstraint', 'joinSQLType',
                'createIndexSQL', 'createTable', 'dropTable', '_SO_createJoinTable', '_SO_dropJoinTable',
                '_SO_createIndex', 'addColumn', 'delColumn', 'recreateTableWithoutColumn']
INDEX_METHODS = ['sqliteCreateIndexSQL', 'mysqlCreateIndexSQL', 'postgresCreateIndexSQL', 'maxdbCreateIndexSQL',
                 'mssqlCreateIndexSQL', 'sybaseCreateIndexSQL', 'firebirdCreateIndexSQL']
STYLE_CLASSES = ['Style', 'MixedCaseUnderscoreStyle', 'MixedCaseStyle']
STYLE_FUNCS = ['mixedToUnder', 'mixedToUnderSub', 'capword', 'lowerword', 'underToMixed']
MAIN_METHODS = ['_getJoinsToCreate', 'createJoinTablesSQL', 'createTable', 'dropTable', 'createJoinTables',
                'dropJoinTables', 'createIndexes']
# world-threading reading (Model/PyDdlW.lean): calls with an effect / reads of the world
EFFECT_NAMES = ('query', 'send', 'createTable', 'dropTable', 'createJoinTables', 'dropJoinTables', 'createIndexes',
                '_SO_createJoinTable', '_SO_dropJoinTable', '_SO_createIndex', 'addColumn', 'delColumn',
                'recreateTableWithoutColumn')
READ_NAMES = ('tableExists',)

STR_BUILTINS = ('join', 'startswith', 'endswith', 'lower', 'upper', 'split', 'group')
EXT_FUNCS = {'findClass': 'findClass'}
EXCS = {'ValueError': '.valueError', 'TypeError': '.typeError', 'KeyError': '.keyError', 'IndexError': '.indexError',
        'AssertionError': '.assertionError', 'AttributeError': '.attributeError'}
CMP = {ast.Eq: '.eq', ast.NotEq: '.ne', ast.Lt: '.lt', ast.LtE: '.le', ast.Gt: '.gt', ast.GtE: '.ge',
       ast.In: '.isIn', ast.NotIn: '.notIn'}
RE_PATTERNS = {'[A-Z]+': '.upperRun', '_.': '.underAny'}


def ident(s):
    return _re.sub(r'\W', '_', s)


def parse_format(fmt, fail):
    """literal format string -> list of Lean `Piece`s"""
    pieces, lit, i = [], '', 0

    def flush():
        nonlocal lit
        if lit:
            pieces.append('.lit %s' % lean_nat_list(lit))
            lit = ''
    while i < len(fmt):
        c = fmt[i]
        if c != '%':
            lit += c
            i += 1
            continue
        if i + 1 >= len(fmt):
            fail('format string ends in %')
        n = fmt[i + 1]
        if n == '%':
            lit += '%'
            i += 2
        elif n == 's':
            flush()
            pieces.append('.s')
            i += 2
        elif n in 'id':
            flush()
            pieces.append('.d')
            i += 2
        elif n == '(':
            j = fmt.find(')', i)
            if j < 0 or j + 1 >= len(fmt) or fmt[j + 1] != 's':
                fail('named conversion outside the fragment in %r' % fmt)
            flush()
            pieces.append('.named %s' % lean_nat_list(fmt[i + 2:j]))
            i = j + 2
        else:
            fail('conversion %%%s outside the fragment in %r' % (n, fmt))
    flush()
    return '[%s]' % ', '.join(pieces)


class World(object):
    """names of the whole program"""

    def __init__(self):
        self.classes = []          # names, numbered by position
        self.mro = {}              # class -> [class, base, ...]
        self.methnames = []        # numbered by position
        self.funcs = []            # module-level functions
        self.own = {}              # (class, meth) -> lean name of the Fn
        self.sigs = {}             # meth name -> set of param tuples
        self.supers = set()        # (after, meth)
        self.directs = set()       # (class, meth)

    def C(self, name):
        return 'C_%s' % ident(name)

    def M(self, name):
        return 'M_%s' % ident(name)

    def F(self, name):
        return 'F_%s' % ident(name)


class Fn(object):
    def __init__(self, W, fn, lean, where, modinfo, kind, cname=None):
        """kind: 'method' | 'classmethod' | 'function'"""
        self.W, self.fn, self.lean, self.where, self.mod, self.kind, self.cname = W, fn, lean, where, modinfo, kind, cname
        a = fn.args
        if a.kwonlyargs or a.posonlyargs or a.vararg or a.kwarg:
            self.fail('unexpected signature')
        decos = [d.id if isinstance(d, ast.Name) else '?' for d in fn.decorator_list]
        want = ['classmethod'] if kind == 'classmethod' else []
        if decos != want:
            self.fail('decorators are %r, expected %r' % (decos, want))
        self.params = [x.arg for x in a.args]
        if kind == 'method' and self.params[:1] != ['self']:
            self.fail('first parameter is not self')
        if kind == 'classmethod' and self.params[:1] != ['cls']:
            self.fail('first parameter is not cls')
        self.defaults = [self.const_val(d) for d in a.defaults]
        self.nslots = len(self.params)
        self.scope = {p: i for i, p in enumerate(self.params)}
        self.loops = []
        body = strip_doc(fn.body)
        self.body_nodes = body
        self._check_effect_positions(body)
        self.stmts = [(self.stmt(s, top=(k == 0)), s) for k, s in enumerate(body)]

    def _check_effect_positions(self, body):
        mod = ast.Module(body=body, type_ignores=[])
        parents = {}
        for x in ast.walk(mod):
            for c in ast.iter_child_nodes(x):
                parents[c] = x
        for x in ast.walk(mod):
            if isinstance(x, ast.Call) and isinstance(x.func, ast.Attribute):
                p = parents[x]
                if x.func.attr in EFFECT_NAMES:
                    ok = (isinstance(p, ast.Expr) or (isinstance(p, ast.Assign) and p.value is x)
                          or (isinstance(p, ast.Return) and p.value is x))
                    if not ok:
                        self.fail('the effectful call is not the whole expression of a statement', x)
                if x.func.attr in READ_NAMES:
                    q, child = p, x
                    while isinstance(q, (ast.BoolOp, ast.UnaryOp)) and (not isinstance(q, ast.UnaryOp) or isinstance(q.op, ast.Not)):
                        child, q = q, parents[q]
                    if not (isinstance(q, ast.If) and q.test is child):
                        self.fail('a read of the world outside the test of an if', x)

    def fail(self, what, n=None):
        raise ExtractError('%s: %s%s' % (self.where, what,
                                         (': ' + ast.unparse(n).split('\n')[0]) if n is not None else ''))

    def const_val(self, d):
        if isinstance(d, ast.Constant):
            v = d.value
            if v is None:
                return '.none'
            if v is True:
                return '.bool true'
            if v is False:
                return '.bool false'
            if isinstance(v, int):
                return '.int %d' % v
            if isinstance(v, str):
                return '.str %s' % lean_nat_list(v)
        self.fail('default value outside the fragment', d)

    # ---- names
    def bind(self, name):
        if name not in self.scope:
            self.scope[name] = self.nslots
            self.nslots += 1
        return self.scope[name]

    def fresh(self):
        k = self.nslots
        self.nslots += 1
        return k

    def is_local(self, name):
        return name in self.scope

    # ---- expressions
    def exprs(self, es):
        out = '.nil'
        for e in reversed(es):
            out = '(.cons %s %s)' % (self.expr(e), out)
        return out

    def class_ref(self, n):
        """a class of the program named by an expression, else None"""
        if isinstance(n, ast.Name) and not self.is_local(n.id) and n.id in self.W.classes:
            return n.id
        if isinstance(n, ast.Attribute) and isinstance(n.value, ast.Name) and not self.is_local(n.value.id) \
                and n.value.id in self.mod['modules'] and n.attr in self.W.classes:
            return n.attr
        return None

    def expr(self, n):
        m = self
        if isinstance(n, ast.Constant):
            v = n.value
            if v is None:
                return '.none'
            if v is True:
                return '.true'
            if v is False:
                return '.false'
            if isinstance(v, int):
                return '(.int %d)' % v
            if isinstance(v, str):
                return '(.str %s)' % lean_nat_list(v)
            m.fail('constant outside the fragment', n)
        if isinstance(n, ast.UnaryOp) and isinstance(n.op, ast.USub) and isinstance(n.operand, ast.Constant) \
                and isinstance(n.operand.value, int) and not isinstance(n.operand.value, bool):
            return '(.int (%d))' % (-n.operand.value)
        if isinstance(n, ast.Name):
            if m.is_local(n.id):
                return '(.var %d)' % m.scope[n.id]
            if n.id in ('int', 'str'):
                return '(.ty %s)' % lean_str(n.id)
            c = m.class_ref(n)
            if c:
                return '(.cls %s)' % m.W.C(c)
            m.fail('name outside the fragment', n)
        if isinstance(n, ast.Attribute):
            c = m.class_ref(n)
            if c:
                return '(.cls %s)' % m.W.C(c)
            if isinstance(n.value, ast.Name) and not m.is_local(n.value.id):
                if n.value.id == 'events' and 'events' in m.mod['modules']:
                    return '(.glob %s)' % lean_str('events.' + n.attr)
                m.fail('module constant outside the fragment', n)
            return '(.attr %s %s)' % (m.expr(n.value), lean_str(n.attr))
        if isinstance(n, ast.Tuple):
            return '(.tuple %s)' % m.exprs(n.elts)
        if isinstance(n, ast.List):
            return '(.list %s)' % m.exprs(n.elts)
        if isinstance(n, ast.Dict):
            ks = []
            for k in n.keys:
                if isinstance(k, ast.Name) and k.id in ('int', 'str') and not m.is_local(k.id):
                    ks.append('.ty %s' % lean_str(k.id))
                elif isinstance(k, ast.Constant) and isinstance(k.value, str):
                    ks.append('.str %s' % lean_nat_list(k.value))
                else:
                    m.fail('dict key outside the fragment', n)
            return '(.dict [%s] %s)' % (', '.join(ks), m.exprs(n.values))
        if isinstance(n, ast.UnaryOp) and isinstance(n.op, ast.Not):
            return '(.not %s)' % m.expr(n.operand)
        if isinstance(n, ast.BoolOp):
            op = '.and' if isinstance(n.op, ast.And) else '.or'
            out = m.expr(n.values[-1])
            for v in reversed(n.values[:-1]):
                out = '(%s %s %s)' % (op, m.expr(v), out)
            return out
        if isinstance(n, ast.Compare):
            if len(n.ops) != 1:
                m.fail('chained comparison', n)
            op, a, b = n.ops[0], n.left, n.comparators[0]
            if isinstance(op, ast.Is):
                return '(.is %s %s)' % (m.expr(a), m.expr(b))
            if isinstance(op, ast.IsNot):
                return '(.isNot %s %s)' % (m.expr(a), m.expr(b))
            if type(op) not in CMP:
                m.fail('comparison outside the fragment', n)
            return '(.cmp %s %s %s)' % (CMP[type(op)], m.expr(a), m.expr(b))
        if isinstance(n, ast.BinOp):
            if isinstance(n.op, ast.Add):
                return '(.add %s %s)' % (m.expr(n.left), m.expr(n.right))
            if isinstance(n.op, ast.Pow):
                return '(.pow %s %s)' % (m.expr(n.left), m.expr(n.right))
            if isinstance(n.op, ast.Mod):
                if not (isinstance(n.left, ast.Constant) and isinstance(n.left.value, str)):
                    m.fail('% with a format that is not a literal', n)
                return '(.fmt %s %s)' % (parse_format(n.left.value, lambda w: m.fail(w, n)), m.expr(n.right))
            m.fail('operator outside the fragment', n)
        if isinstance(n, ast.Subscript):
            s = n.slice
            if isinstance(s, ast.Slice):
                if s.step is not None:
                    m.fail('slice with a step', n)
                if s.lower is not None and s.upper is None:
                    return '(.sliceFrom %s %s)' % (m.expr(n.value), m.expr(s.lower))
                if s.upper is not None and s.lower is None:
                    return '(.sliceTo %s %s)' % (m.expr(n.value), m.expr(s.upper))
                m.fail('slice outside the fragment', n)
            return '(.index %s %s)' % (m.expr(n.value), m.expr(s))
        if isinstance(n, ast.ListComp):
            return m.comp(n)
        if isinstance(n, ast.Call):
            return m.call(n)
        m.fail('expression outside the fragment', n)

    def comp(self, n):
        m = self
        if len(n.generators) != 1:
            m.fail('comprehension with several generators', n)
        g = n.generators[0]
        if g.is_async or len(g.ifs) > 1 or not isinstance(g.target, ast.Name):
            m.fail('comprehension outside the fragment', n)
        it = m.expr(g.iter)                     # evaluated in the enclosing scope
        x = m.fresh()
        saved = m.scope.get(g.target.id, None)
        had = g.target.id in m.scope
        m.scope[g.target.id] = x
        try:
            cond = m.expr(g.ifs[0]) if g.ifs else '.true'
            body = m.expr(n.elt)
        finally:
            if had:
                m.scope[g.target.id] = saved
            else:
                del m.scope[g.target.id]
        return '(.comp %d %s %s %s)' % (x, it, cond, body)

    def call(self, n):
        m = self
        W = m.W
        f = n.func
        if any(isinstance(a, ast.Starred) for a in n.args) or any(k.arg is None for k in n.keywords):
            m.fail('star arguments', n)
        if isinstance(f, ast.Name) and m.is_local(f.id):
            if n.keywords:
                m.fail('keyword arguments of a call of a value', n)
            return '(.callVal %s %s)' % (m.expr(f), m.exprs(n.args))
        if isinstance(f, ast.Name) and not m.is_local(f.id):
            if n.keywords:
                m.fail('keyword arguments', n)
            if f.id == 'isinstance':
                c = m.class_ref(n.args[1]) if len(n.args) == 2 else None
                if not c:
                    m.fail('isinstance outside the fragment', n)
                return '(.isinstance %s %s)' % (m.expr(n.args[0]), W.C(c))
            if f.id == 'len' and len(n.args) == 1:
                return '(.len %s)' % m.expr(n.args[0])
            if f.id == 'max' and len(n.args) == 1:
                a = n.args[0]
                if isinstance(a, ast.Call) and isinstance(a.func, ast.Name) and a.func.id == 'map' \
                        and not m.is_local('map') and len(a.args) == 2 and isinstance(a.args[0], ast.Attribute) \
                        and isinstance(a.args[0].value, ast.Name) and m.is_local(a.args[0].value.id) \
                        and a.args[0].attr in W.methnames:
                    it = m.expr(a.args[1])
                    x = m.fresh()
                    return '(.max (.comp %d %s .true (.mcall %s %s (.cons (.var %d) .nil))))' % (
                        x, it, m.expr(a.args[0].value), W.M(a.args[0].attr), x)
                return '(.max %s)' % m.expr(a)
            if f.id == 'getattr':
                if len(n.args) != 3 or not (isinstance(n.args[1], ast.Constant) and isinstance(n.args[1].value, str)):
                    m.fail('getattr outside the fragment', n)
                return '(.getattrD %s %s %s)' % (m.expr(n.args[0]), lean_str(n.args[1].value), m.expr(n.args[2]))
            if f.id in W.funcs and f.id in m.mod['functions']:
                return '(.fcall %s %s)' % (W.F(f.id), m.exprs(n.args))
            if f.id in EXT_FUNCS and f.id in m.mod['imported']:
                return '(.ext %s %s)' % (lean_str(EXT_FUNCS[f.id]), m.exprs(n.args))
            m.fail('call of an unknown function', n)
        if isinstance(f, ast.Attribute):
            recv, name = f.value, f.attr
            # super(C, self).m(...)
            if isinstance(recv, ast.Call) and isinstance(recv.func, ast.Name) and recv.func.id == 'super':
                if n.keywords or len(recv.args) != 2 or not isinstance(recv.args[1], ast.Name) \
                        or recv.args[1].id != 'self' or m.scope.get('self') != 0 or name not in W.methnames:
                    m.fail('super call outside the fragment', n)
                c = m.class_ref(recv.args[0])
                if not c:
                    m.fail('super() of an unknown class', n)
                W.supers.add((c, name))
                return '(.scall %s %s %s)' % (W.C(c), W.M(name), m.exprs(n.args))
            # module.function(...)
            if isinstance(recv, ast.Name) and not m.is_local(recv.id):
                if recv.id in m.mod['regexes']:
                    if name != 'sub' or len(n.args) != 2 or n.keywords:
                        m.fail('regular-expression call outside the fragment', n)
                    pat = m.mod['regexes'][recv.id]
                    g, s = n.args
                    if isinstance(g, ast.Name) and not m.is_local(g.id) and g.id in W.funcs:
                        return '(.reSubF %s %s %s)' % (pat, W.F(g.id), m.expr(s))
                    if isinstance(g, ast.Lambda) and len(g.args.args) == 1 and not g.args.defaults \
                            and not g.args.vararg and not g.args.kwarg and not g.args.kwonlyargs:
                        sx = m.expr(s)
                        x = m.fresh()
                        p = g.args.args[0].arg
                        had, saved = p in m.scope, m.scope.get(p)
                        m.scope[p] = x
                        try:
                            body = m.expr(g.body)
                        finally:
                            if had:
                                m.scope[p] = saved
                            else:
                                del m.scope[p]
                        return '(.reSubL %s %d %s %s)' % (pat, x, body, sx)
                    m.fail('replacement of re.sub outside the fragment', n)
                c = m.class_ref(recv)
                if c:
                    if n.keywords or name not in W.methnames:
                        m.fail('direct call outside the fragment', n)
                    W.directs.add((c, name))
                    return '(.dcall %s %s %s)' % (W.C(c), W.M(name), m.exprs(n.args))
                if recv.id in m.mod['modules'] and (recv.id, name) == ('sqlbuilder', 'sqlrepr'):
                    if n.keywords:
                        m.fail('keyword arguments', n)
                    return '(.ext "sqlbuilder.sqlrepr" %s)' % m.exprs(n.args)
                m.fail('call through an unknown module name', n)
            if name in STR_BUILTINS or name not in W.methnames:
                # a method that is not a method of the program: keyword values follow the positional ones
                return '(.bmeth %s %s %s)' % (m.expr(recv), lean_str(name),
                                              m.exprs(list(n.args) + [k.value for k in n.keywords]))
            args = list(n.args)
            if n.keywords:
                sigs = W.sigs_full.get(name, set())
                if len(sigs) != 1:
                    m.fail('keyword arguments of a method whose definitions disagree on the signature', n)
                params, ndef = list(sigs)[0]
                kw = {k.arg: k.value for k in n.keywords}
                rest = list(params[len(args):])
                for k in kw:
                    if k not in rest:
                        m.fail('unknown / repeated keyword %s' % k, n)
                last = max(rest.index(k) for k in kw)
                for i, pn in enumerate(rest[:last + 1]):
                    if pn in kw:
                        args.append(kw[pn])
                    else:
                        d = W.sig_defaults[name][len(n.args) + i]
                        if d is None:
                            m.fail('parameter %s skipped without a default' % pn, n)
                        args.append(d)
            return '(.mcall %s %s %s)' % (m.expr(recv), W.M(name), m.exprs(args))
        m.fail('call outside the fragment', n)

    # ---- statements
    def block(self, stmts):
        out = '.nil'
        terms = [self.stmt(s) for s in stmts]
        for t in reversed(terms):
            out = '(.cons %s %s)' % (t, out)
        return out

    def stmt(self, n, top=False):
        m = self
        if isinstance(n, ast.Assign):
            if len(n.targets) != 1:
                m.fail('chained assignment', n)
            t = n.targets[0]
            if isinstance(t, ast.Attribute):
                ok = (top and isinstance(t.value, ast.Name) and t.value.id == 'self' and m.scope.get('self') == 0
                      and t.attr == 'connection' and isinstance(n.value, ast.Name) and n.value.id == 'connection'
                      and m.fn.name.endswith('CreateSQL'))
                if not ok:
                    m.fail('attribute assignment outside the fragment', n)
                return '(.setAttr 0 %s %s)' % (lean_str(t.attr), m.expr(n.value))
            if isinstance(t, ast.Tuple) and all(isinstance(e, ast.Name) for e in t.elts):
                e = m.expr(n.value)
                return '(.assignTup [%s] %s)' % (', '.join(str(m.bind(x.id)) for x in t.elts), e)
            if not isinstance(t, ast.Name):
                m.fail('assignment target outside the fragment', n)
            e = m.expr(n.value)
            return '(.assign %d %s)' % (m.bind(t.id), e)
        if isinstance(n, ast.AugAssign):
            if not (isinstance(n.op, ast.Add) and isinstance(n.target, ast.Name) and m.is_local(n.target.id)):
                m.fail('augmented assignment outside the fragment', n)
            x = m.scope[n.target.id]
            return '(.assign %d (.add (.var %d) %s))' % (x, x, m.expr(n.value))
        if isinstance(n, ast.If):
            c = m.expr(n.test)
            t = m.block(n.body)
            e = m.block(n.orelse)
            return '(.ite %s %s %s)' % (c, t, e)
        if isinstance(n, ast.For):
            if n.orelse or not isinstance(n.target, ast.Name):
                m.fail('for loop outside the fragment', n)
            for sub in ast.walk(n):
                if isinstance(sub, ast.Break):
                    m.fail('break', n)
            it = m.expr(n.iter)
            x = m.bind(n.target.id)
            body = m.block(n.body)
            k = len(m.loops)
            m.loops.append((body, n))
            return '(.for %d %s %s_for%d)' % (x, it, m.lean, k)
        if isinstance(n, ast.Try):
            if n.orelse or n.finalbody or len(n.handlers) != 1 or n.handlers[0].name \
                    or not isinstance(n.handlers[0].type, ast.Name) or n.handlers[0].type.id not in EXCS:
                m.fail('try statement outside the fragment', n)
            return '(.tryExc %s %s %s)' % (m.block(n.body), EXCS[n.handlers[0].type.id], m.block(n.handlers[0].body))
        if isinstance(n, ast.Assert):
            return '(.assert %s)' % m.expr(n.test)
        if isinstance(n, ast.Raise):
            e = n.exc
            if isinstance(e, ast.Call):
                e = e.func
            if n.cause or not isinstance(e, ast.Name) or e.id not in EXCS:
                m.fail('raise outside the fragment', n)
            return '(.raise %s)' % EXCS[e.id]
        if isinstance(n, ast.Return):
            return '(.ret %s)' % (m.expr(n.value) if n.value is not None else '.none')
        if isinstance(n, ast.Expr):
            v = n.value
            if isinstance(v, ast.Call) and isinstance(v.func, ast.Attribute) and v.func.attr == 'append' \
                    and isinstance(v.func.value, ast.Name) and m.is_local(v.func.value.id) \
                    and len(v.args) == 1 and not v.keywords and v.func.value.id not in m.params:
                return '(.append %d %s)' % (m.scope[v.func.value.id], m.expr(v.args[0]))
            if isinstance(v, ast.Call) and isinstance(v.func, ast.Attribute) and v.func.attr == 'extend' \
                    and isinstance(v.func.value, ast.Name) and m.is_local(v.func.value.id) \
                    and len(v.args) == 1 and not v.keywords and v.func.value.id not in m.params:
                x = m.scope[v.func.value.id]
                return '(.assign %d (.add (.var %d) %s))' % (x, x, m.expr(v.args[0]))
            return '(.expr %s)' % m.expr(v)
        if isinstance(n, ast.Continue):
            return '.continue'
        if isinstance(n, ast.Pass):
            return '.pass'
        m.fail('statement outside the fragment', n)


def _doc(n):
    line = ast.unparse(n).split('\n')[0]
    return line.replace('-/', '- /').replace('/-', '/ -')


def module_info(tree, rel, W):
    """what the module-level names of a file denote"""
    info = {'modules': set(), 'imported': set(), 'functions': set(), 'regexes': {}}
    for st in tree.body:
        if isinstance(st, ast.ImportFrom):
            for a in st.names:
                nm = a.asname or a.name
                if nm in ('col', 'sqlbuilder', 'events') and a.name == nm and (st.module in (None, 'sqlobject') or st.level > 0):
                    info['modules'].add(nm)
                elif nm in EXT_FUNCS and a.name == nm:
                    info['imported'].add(nm)
        elif isinstance(st, ast.Import):
            pass
        elif isinstance(st, ast.FunctionDef):
            info['functions'].add(st.name)
        elif isinstance(st, ast.Assign) and len(st.targets) == 1 and isinstance(st.targets[0], ast.Name):
            v = st.value
            if isinstance(v, ast.Call) and ast.unparse(v.func) == 're.compile' and len(v.args) == 1 \
                    and isinstance(v.args[0], ast.Constant) and v.args[0].value in RE_PATTERNS and not v.keywords:
                info['regexes'][st.targets[0].id] = RE_PATTERNS[v.args[0].value]
    # a name bound twice at module level would make the above ambiguous
    bound = {}
    for st in tree.body:
        names = []
        if isinstance(st, (ast.FunctionDef, ast.ClassDef)):
            names = [st.name]
        elif isinstance(st, ast.Assign):
            names = [t.id for t in st.targets if isinstance(t, ast.Name)]
        for nm in names:
            bound[nm] = bound.get(nm, 0) + 1
    for nm in list(info['functions']) + list(info['regexes']):
        if bound.get(nm, 0) != 1:
            raise ExtractError('%s: %s is bound %d times at module level' % (rel, nm, bound.get(nm, 0)))
    return info


def single_bases(tree, cname, known):
    k = find_class(tree, cname)
    bases = [ast.unparse(b) for b in k.bases]
    inprog = [b for b in bases if b in known]
    if len(bases) != 1:
        raise ExtractError('class %s has bases %r (single inheritance expected)' % (cname, bases))
    return inprog[0] if inprog else None


def extract(repo):
    W = World()
    out = [HEADER % 'pyddl', 'import SqlObjVerif.Model.PyDdl', '',
           'namespace SqlObjVerif.PyDdl.Extracted', 'open SqlObjVerif.PyDdl', '']
    trees = {}

    def tree_of(rel):
        if rel not in trees:
            trees[rel] = parse(repo, rel)
        return trees[rel]

    # ---- the class table
    plan = []      # (rel, class, [method names wanted], kind)
    for c in COL_CLASSES:
        plan.append(('sqlobject/col.py', c, COL_METHODS, 'method'))
    for rel, c in CONN_CLASSES:
        plan.append((rel, c, CONN_METHODS, 'method'))
    for c in STYLE_CLASSES:
        plan.append(('sqlobject/styles.py', c, None, 'method'))
    plan.append(('sqlobject/main.py', 'SQLObject', MAIN_METHODS, 'classmethod'))
    plan.append(('sqlobject/index.py', 'SODatabaseIndex', INDEX_METHODS, 'method'))
    W.classes = [c for _, c, _, _ in plan]
    W.funcs = list(STYLE_FUNCS)

    col_tree = tree_of('sqlobject/col.py')
    for c in COL_CLASSES:
        b = single_bases(col_tree, c, set(COL_CLASSES)) if c != 'SOCol' else None
        if c != 'SOCol' and b is None:
            raise ExtractError('class %s no longer derives from a translated column class' % c)
        W.mro[c] = [c] + (W.mro[b] if b else [])
    for rel, c in CONN_CLASSES:
        if c == 'DBAPI':
            W.mro[c] = [c]
        else:
            b = single_bases(tree_of(rel), c, {'DBAPI'})
            if b != 'DBAPI':
                raise ExtractError('connection class %s no longer derives from DBAPI' % c)
            W.mro[c] = [c, 'DBAPI']
    st_tree = tree_of('sqlobject/styles.py')
    for c in STYLE_CLASSES:
        b = single_bases(st_tree, c, set(STYLE_CLASSES)) if c != 'Style' else None
        W.mro[c] = [c] + (W.mro[b] if b else [])
    W.mro['SQLObject'] = ['SQLObject']
    W.mro['SODatabaseIndex'] = ['SODatabaseIndex']
    aliases = []   # (class, alias name, name of the def it binds)

    todo = []      # (rel, class, FunctionDef, kind)
    consts = []
    for rel, c, wanted, kind in plan:
        k = find_class(tree_of(rel), c)
        for st in k.body:
            if isinstance(st, ast.FunctionDef):
                if (wanted is None and st.name != '__init__') or (wanted is not None and st.name in wanted):
                    todo.append((rel, c, st, kind))
            elif isinstance(st, ast.Assign) and all(isinstance(t, ast.Name) for t in st.targets) \
                    and wanted is not None and any(t.id in wanted for t in st.targets):
                # `a = b = f`: the names bind the function `f` defined in this class
                if not (isinstance(st.value, ast.Name) and any(isinstance(x, ast.FunctionDef) and x.name == st.value.id
                                                                for x in k.body)):
                    raise ExtractError('%s: alias assignment outside the fragment: %s' % (c, ast.unparse(st)[:80]))
                for t in st.targets:
                    if t.id in wanted:
                        aliases.append((c, t.id, st.value.id))
            elif isinstance(st, ast.Assign) and len(st.targets) == 1 and isinstance(st.targets[0], ast.Name):
                nm = st.targets[0].id
                if c == 'SOKeyCol' and nm == 'key_type':
                    consts.append((c, nm, st.value))
    for rel, c, wanted, kind in plan:
        if wanted is not None and c == 'SQLObject':
            have = [t[2].name for t in todo if t[1] == c]
            for w in wanted:
                if w not in have:
                    raise ExtractError('SQLObject.%s not found' % w)
    W.methnames = sorted({t[2].name for t in todo} | set(INDEX_METHODS))
    W.sigs_full, W.sig_defaults = {}, {}
    for rel, c, node, kind in todo:
        ps = tuple(a.arg for a in node.args.args[1:])
        nd = len(node.args.defaults)
        W.sigs_full.setdefault(node.name, set()).add((ps, nd))
        defs = [None] * (len(ps) - nd) + list(node.args.defaults)
        W.sig_defaults[node.name] = defs

    out.append('/-! ### numbering -/')
    for i, c in enumerate(W.classes):
        out.append('abbrev %s : Nat := %d' % (W.C(c), i))
    for i, mname in enumerate(W.methnames):
        out.append('abbrev %s : Nat := %d' % (W.M(mname), i))
    for i, f in enumerate(W.funcs):
        out.append('abbrev %s : Nat := %d' % (W.F(f), i))
    out.append('')

    infos = {}

    def info_of(rel):
        if rel not in infos:
            infos[rel] = module_info(tree_of(rel), rel, W)
        return infos[rel]

    def emit(f, title):
        out.append('/-! ### `%s(%s)`: %d locals, parameters %s -/' % (
            title, ', '.join(f.params), f.nslots, ', '.join('%s=%d' % (v, i) for i, v in enumerate(f.params))))
        out.append('')
        for k, (body, node) in enumerate(f.loops):
            out.append('/-- body of `%s` -/' % _doc(node))
            out.append('@[pyddl] def %s_for%d : Block :=\n  %s' % (f.lean, k, body))
            out.append('')
        for k, (term, node) in enumerate(f.stmts):
            out.append('/-- `%s` -/' % _doc(node))
            out.append('@[pyddl] def %s_s%d : Stmt :=\n  %s' % (f.lean, k, term))
            out.append('')
        blk = '.nil'
        for k in reversed(range(len(f.stmts))):
            blk = '(.cons %s_s%d %s)' % (f.lean, k, blk)
        out.append('@[pyddl] def %s : Block :=\n  %s' % (f.lean, blk))
        out.append('@[pyddl] def %s_fn : Fn := { nparams := %d, defaults := [%s], body := %s }' % (
            f.lean, len(f.params), ', '.join(f.defaults), f.lean))
        out.append('')

    for rel, c, node, kind in todo:
        lean = '%s__%s' % (ident(c), ident(node.name))
        f = Fn(W, node, lean, '%s.%s' % (c, node.name), info_of(rel), kind, c)
        W.own[(c, node.name)] = lean
        W.sigs.setdefault(node.name, set()).add(tuple(f.params[1:]))
        emit(f, '%s.%s' % (c, node.name))
    for c, alias, target in aliases:
        if (c, target) not in W.own:
            raise ExtractError('%s.%s is an alias of %s, which is not translated' % (c, alias, target))
        if (c, alias) in W.own:
            raise ExtractError('%s.%s is bound twice' % (c, alias))
        W.own[(c, alias)] = W.own[(c, target)]
    for fname in W.funcs:
        node = find_func(st_tree, fname)
        lean = 'fn_%s' % ident(fname)
        f = Fn(W, node, lean, 'styles.%s' % fname, info_of('sqlobject/styles.py'), 'function')
        emit(f, 'styles.%s' % fname)

    # ---- class constants
    const_terms = []
    for c, nm, v in consts:
        if not isinstance(v, ast.Dict):
            raise ExtractError('%s.%s is not a dict display' % (c, nm))
        items = []
        for k, x in zip(v.keys, v.values):
            if isinstance(k, ast.Name) and k.id in ('int', 'str') and isinstance(x, ast.Constant) and isinstance(x.value, str):
                items.append('(.ty %s, .str %s)' % (lean_str(k.id), lean_nat_list(x.value)))
            else:
                raise ExtractError('%s.%s: entry outside the fragment' % (c, nm))
        const_terms.append('((%s, %s), .dict [%s])' % (W.C(c), lean_str(nm), ', '.join(items)))

    out.append('/-- the program methods with an effect on the world (statement-level calls of them thread the world) -/')
    out.append('def effMeths : List Nat := [%s]' % ', '.join(W.M(x) for x in W.methnames if x in EFFECT_NAMES))
    out.append('')
    out.append('/-! ### the program -/')
    out.append('def prog : Prog where')
    out.append('  mro := [%s]' % ',\n    '.join('(%s, [%s])' % (W.C(c), ', '.join(W.C(b) for b in W.mro[c])) for c in W.classes))
    per = {}
    for (c, mn), lean in W.own.items():
        per.setdefault(c, []).append('(%s, %s_fn)' % (W.M(mn), lean))
    out.append('  classes := [%s]' % ',\n    '.join('(%s, [%s])' % (W.C(c), ', '.join(per[c])) for c in W.classes if c in per))
    out.append('  consts := [%s]' % ', '.join(const_terms))
    out.append('  funcs := [%s]' % ', '.join('(%s, fn_%s_fn)' % (W.F(f), ident(f)) for f in W.funcs))
    out.append('')

    # ---- resolution facts (each checked by rfl)
    def resolve(classes, mn):
        for k in classes:
            if (k, mn) in W.own:
                return W.own[(k, mn)]
        return None
    out.append('/-! ### which definition a call reaches (checked by evaluation of `Prog.resolve`) -/')
    for c in W.classes:
        for mn in W.methnames:
            r = resolve(W.mro[c], mn)
            if r:
                out.append('@[simp] theorem res_%s_%s : prog.resolve (.meth %s %s) = some %s_fn := by rfl' % (
                    ident(c), ident(mn), W.C(c), W.M(mn), r))
    for (a, mn) in sorted(W.supers):
        for c in W.classes:
            if a in W.mro[c]:
                r = resolve(W.mro[c][W.mro[c].index(a) + 1:], mn)
                if r:
                    out.append('@[simp] theorem res_super_%s_%s_%s : prog.resolve (.super %s %s %s) = some %s_fn := by rfl' % (
                        ident(a), ident(c), ident(mn), W.C(a), W.C(c), W.M(mn), r))
    for (c, mn) in sorted(W.directs):
        r = resolve(W.mro[c], mn)
        if r:
            out.append('@[simp] theorem res_direct_%s_%s : prog.resolve (.direct %s %s) = some %s_fn := by rfl' % (
                ident(c), ident(mn), W.C(c), W.M(mn), r))
    for f in W.funcs:
        out.append('@[simp] theorem res_func_%s : prog.resolve (.func %s) = some fn_%s_fn := by rfl' % (
            ident(f), W.F(f), ident(f)))
    for c in W.classes:
        out.append('@[simp] theorem mro_%s : prog.mroOf %s = [%s] := by rfl' % (
            ident(c), W.C(c), ', '.join(W.C(b) for b in W.mro[c])))
    out.append('')
    out.append('end SqlObjVerif.PyDdl.Extracted')
    return '\n'.join(out) + '\n'
