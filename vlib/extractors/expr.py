"""Expression builders of sqlbuilder.py: which SQL operator every overloaded Python operator and every
builder function (AND, OR, NOT, IN, NOTIN, ISNULL, ISNOTNULL) emits, what `== None` / `!= None` do,
the fold direction of AND / OR, and SQLModulo's dialect split — as `SqlObjVerif.Expr` data."""
import ast
from . import ExtractError, parse, find_class, find_func, strip_doc, lean_str, HEADER

TARGET = 'Expr'

BIN = {'+': 'add', '-': 'sub', '*': 'mul', '/': 'div', '%': 'mod', '<': 'lt', '<=': 'le', '>': 'gt', '>=': 'ge',
       '=': 'eq', '<>': 'ne', 'AND': 'and', 'OR': 'or', 'IS': 'is', 'IS NOT': 'isNot'}
PRE = {'-': 'neg', '+': 'pos', 'NOT': 'not'}
FN = {'MOD': 'mod'}


def _norm(s):
    # SQLOp.__init__ upper-cases the operator
    return ' '.join(s.upper().split())


def _const_str(node, what):
    if not (isinstance(node, ast.Constant) and isinstance(node.value, str)):
        raise ExtractError('%s: operator is not a string literal: %s' % (what, ast.unparse(node)))
    return node.value


def _binop(s, what):
    k = _norm(s)
    if k not in BIN:
        raise ExtractError('%s: SQL operator %r is not in the modelled table' % (what, s))
    return '.' + BIN[k]


def _preop(s, what):
    k = _norm(s)
    if k not in PRE or s != k:
        raise ExtractError('%s: SQL prefix %r is not in the modelled table' % (what, s))
    return '.' + PRE[k]


def _single_return(fn, what):
    body = strip_doc(fn.body)
    if len(body) != 1 or not isinstance(body[0], ast.Return):
        raise ExtractError('%s: expected a single return statement' % what)
    return body[0].value


def _sqlop_call(v, a, b, what):
    """v must be SQLOp("<op>", a, b) or SQLOp("<op>", b, a); returns (op, swapped)"""
    if not (isinstance(v, ast.Call) and ast.unparse(v.func) == 'SQLOp' and len(v.args) == 3 and not v.keywords):
        raise ExtractError('%s: expected SQLOp(op, x, y), got %s' % (what, ast.unparse(v)))
    op = _const_str(v.args[0], what)
    x, y = ast.unparse(v.args[1]), ast.unparse(v.args[2])
    if (x, y) == (a, b):
        return op, False
    if (x, y) == (b, a):
        return op, True
    raise ExtractError('%s: unexpected operands in %s' % (what, ast.unparse(v)))


def _ovbin(cls, name):
    what = '%s.%s' % (cls.name, name)
    op, sw = _sqlop_call(_single_return(find_func(cls, name), what), 'self', 'other', what)
    return '⟨%s, %s⟩' % (_binop(op, what), 'true' if sw else 'false')


def _prefix(fn, arg, what):
    v = _single_return(fn, what)
    if not (isinstance(v, ast.Call) and ast.unparse(v.func) == 'SQLPrefix' and len(v.args) == 2
            and ast.unparse(v.args[1]) == arg):
        raise ExtractError('%s: expected SQLPrefix(p, %s), got %s' % (what, arg, ast.unparse(v)))
    return _preop(_const_str(v.args[0], what), what)


def _eq_like(cls, name, field):
    """returns (NoneRule, OvBin) of __eq__/__ne__"""
    what = '%s.%s' % (cls.name, name)
    body = strip_doc(find_func(cls, name).body)
    rule = '.fallThrough'
    rest = body
    if body and isinstance(body[0], ast.If):
        st = body[0]
        if ast.unparse(st.test) != 'other is None':
            raise ExtractError('%s: unknown test %s' % (what, ast.unparse(st.test)))
        if len(st.body) != 1 or not isinstance(st.body[0], ast.Return):
            raise ExtractError('%s: unknown None branch' % what)
        r = ast.unparse(st.body[0].value)
        if r == 'ISNULL(self)':
            rule = '.isNull'
        elif r == 'ISNOTNULL(self)':
            rule = '.isNotNull'
        else:
            raise ExtractError('%s: unknown None branch %s' % (what, r))
        rest = list(st.orelse) + body[1:]
    if field:
        if not (len(rest) == 2 and ast.unparse(rest[0]) == 'other = self._from_python(other)'):
            raise ExtractError('%s: expected `other = self._from_python(other)` then a return' % what)
        rest = rest[1:]
    if len(rest) != 1 or not isinstance(rest[0], ast.Return):
        raise ExtractError('%s: expected one return after the None test' % what)
    op, sw = _sqlop_call(rest[0].value, 'self', 'other', what)
    return rule, '⟨%s, %s⟩' % (_binop(op, what), 'true' if sw else 'false')


def _nullfn(tree, name):
    fn = find_func(tree, name)
    v = _single_return(fn, name)
    if not (isinstance(v, ast.Call) and ast.unparse(v.func) == 'SQLOp' and len(v.args) == 3
            and ast.unparse(v.args[1]) == 'expr' and ast.unparse(v.args[2]) == 'None'):
        raise ExtractError('%s: expected SQLOp(op, expr, None), got %s' % (name, ast.unparse(v)))
    return _binop(_const_str(v.args[0], name), name)


def _fold(tree, name):
    """AND / OR: returns (op, fold direction)"""
    fn = find_func(tree, name)
    src = ast.unparse(ast.Module(body=strip_doc(fn.body), type_ignores=[]))
    for node in ast.walk(fn):
        if isinstance(node, ast.Call) and ast.unparse(node.func) == 'SQLOp':
            op = _const_str(node.args[0], name)
            break
    else:
        raise ExtractError('%s: no SQLOp call' % name)
    right = ('if not ops:\n    return None\nop1 = ops[0]\nops = ops[1:]\nif ops:\n'
             '    return SQLOp(%r, op1, %s(*ops))\nelse:\n    return op1' % (op, name))
    left = ('if not ops:\n    return None\nop1 = ops[-1]\nops = ops[:-1]\nif ops:\n'
            '    return SQLOp(%r, %s(*ops), op1)\nelse:\n    return op1' % (op, name))
    if src == right:
        return _binop(op, name), '.right'
    if src == left:
        return _binop(op, name), '.left'
    raise ExtractError('%s: body is neither the right fold nor the left fold the model knows:\n%s' % (name, src))


def extract(repo):
    tree = parse(repo, 'sqlobject/sqlbuilder.py')
    E = find_class(tree, 'SQLExpression')
    F = find_class(tree, 'SQLObjectField')
    out = [HEADER % 'expr', 'import SqlObjVerif.Model.ExprSyn', '', 'namespace SqlObjVerif.Expr.Extracted', '']

    def d(name, typ, val, doc):
        out.append('/-- %s -/' % doc)
        out.append('def %s : %s := %s' % (name, typ, val))

    for py, lean in [('__add__', 'add'), ('__radd__', 'radd'), ('__sub__', 'sub'), ('__rsub__', 'rsub'),
                     ('__mul__', 'mul'), ('__rmul__', 'rmul'), ('__truediv__', 'div'), ('__rtruediv__', 'rdiv'),
                     ('__lt__', 'lt'), ('__le__', 'le'), ('__gt__', 'gt'), ('__ge__', 'ge'),
                     ('__and__', 'andOp'), ('__or__', 'orOp')]:
        d(lean, 'OvBin', _ovbin(E, py), 'SQLExpression.%s' % py)
    d('negOp', 'PreOp', _prefix(find_func(E, '__neg__'), 'self', '__neg__'), 'SQLExpression.__neg__')
    d('posOp', 'PreOp', _prefix(find_func(E, '__pos__'), 'self', '__pos__'), 'SQLExpression.__pos__')
    d('invertOp', 'PreOp', _prefix(find_func(E, '__invert__'), 'self', '__invert__'), 'SQLExpression.__invert__')
    d('notFn', 'PreOp', _prefix(find_func(tree, 'NOT'), 'op', 'NOT'), 'NOT(op)')
    for cls, pre, field in [(E, 'expr', False), (F, 'field', True)]:
        rule, ov = _eq_like(cls, '__eq__', field)
        d(pre + 'EqNone', 'NoneRule', rule, '%s.__eq__ when `other is None`' % cls.name)
        d(pre + 'Eq', 'OvBin', ov, '%s.__eq__ otherwise' % cls.name)
        rule, ov = _eq_like(cls, '__ne__', field)
        d(pre + 'NeNone', 'NoneRule', rule, '%s.__ne__ when `other is None`' % cls.name)
        d(pre + 'Ne', 'OvBin', ov, '%s.__ne__ otherwise' % cls.name)
    d('isnullOp', 'BinOp', _nullfn(tree, 'ISNULL'), 'ISNULL(expr) = SQLOp(op, expr, None)')
    d('isnotnullOp', 'BinOp', _nullfn(tree, 'ISNOTNULL'), 'ISNOTNULL(expr) = SQLOp(op, expr, None)')
    op, fold = _fold(tree, 'AND')
    d('andFn', 'BinOp', op, 'AND(*ops): operator')
    d('andFold', 'Fold', fold, 'AND(*ops): fold direction')
    op, fold = _fold(tree, 'OR')
    d('orFn', 'BinOp', op, 'OR(*ops): operator')
    d('orFold', 'Fold', fold, 'OR(*ops): fold direction')
    # _IN / IN / NOTIN
    v = _single_return(find_func(tree, '_IN'), '_IN')
    if ast.unparse(v) != "SQLOp('IN', item, list)":
        raise ExtractError('_IN: expected SQLOp("IN", item, list), got %s' % ast.unparse(v))
    fn = find_func(tree, 'IN')
    last = strip_doc(fn.body)[-1]
    if not (isinstance(last, ast.If) and ast.unparse(last.test) == 'isinstance(list, Select)'
            and len(last.orelse) == 1 and ast.unparse(last.orelse[0]) == 'return _IN(item, list)'):
        raise ExtractError('IN: the non-subquery branch is not `return _IN(item, list)`')
    fn = find_func(tree, 'NOTIN')
    last = strip_doc(fn.body)[-1]
    if not (isinstance(last, ast.If) and ast.unparse(last.test) == 'isinstance(list, Select)' and len(last.orelse) == 1):
        raise ExtractError('NOTIN: unknown shape')
    r = ast.unparse(last.orelse[0])
    if r == 'return NOT(_IN(item, list))':
        neg = 'true'
    elif r == 'return _IN(item, list)':
        neg = 'false'
    else:
        raise ExtractError('NOTIN: unknown list branch %s' % r)
    d('notinNegates', 'Bool', neg, 'NOTIN(item, list) = NOT(_IN(item, list)) for a plain list')
    # SQLModulo
    v = _single_return(find_func(E, '__mod__'), '__mod__')
    if ast.unparse(v) != 'SQLModulo(self, other)':
        raise ExtractError('__mod__: expected SQLModulo(self, other)')
    M = find_class(tree, 'SQLModulo')
    init = strip_doc(find_func(M, '__init__').body)
    if len(init) != 1 or not ast.unparse(init[0]).startswith('SQLOp.__init__(self, '):
        raise ExtractError('SQLModulo.__init__: unknown shape')
    call = init[0].value
    if [ast.unparse(a) for a in call.args[2:]] != ['expr1', 'expr2']:
        raise ExtractError('SQLModulo.__init__: operands not (expr1, expr2)')
    d('moduloOp', 'BinOp', _binop(_const_str(call.args[1], 'SQLModulo'), 'SQLModulo'), 'SQLModulo: infix operator')
    body = strip_doc(find_func(M, '__sqlrepr__').body)
    if not (len(body) == 4 and isinstance(body[0], ast.If)
            and ast.unparse(body[0].body[0]) == 'return SQLOp.__sqlrepr__(self, db)'
            and ast.unparse(body[1]) == 's1 = sqlrepr(self.expr1, db)'
            and ast.unparse(body[2]) == 's2 = sqlrepr(self.expr2, db)'
            and isinstance(body[3], ast.Return) and isinstance(body[3].value, ast.BinOp)
            and ast.unparse(body[3].value.right) == '(s1, s2)'):
        raise ExtractError('SQLModulo.__sqlrepr__: unknown shape')
    test = body[0].test
    if isinstance(test, ast.Compare) and len(test.ops) == 1 and ast.unparse(test.left) == 'db':
        if isinstance(test.ops[0], ast.Eq) and isinstance(test.comparators[0], ast.Constant):
            dialects = [test.comparators[0].value]
        elif isinstance(test.ops[0], ast.In) and isinstance(test.comparators[0], (ast.Tuple, ast.List)):
            dialects = [e.value for e in test.comparators[0].elts]
        else:
            raise ExtractError('SQLModulo.__sqlrepr__: unknown dialect test')
    else:
        raise ExtractError('SQLModulo.__sqlrepr__: unknown dialect test')
    fmt = _const_str(body[3].value.left, 'SQLModulo')
    if not (fmt.endswith('(%s, %s)') and fmt[:-len('(%s, %s)')] in FN):
        raise ExtractError('SQLModulo.__sqlrepr__: unknown format %r' % fmt)
    d('moduloInfixDialects', 'List String', '[' + ', '.join(lean_str(x) for x in dialects) + ']',
      'SQLModulo.__sqlrepr__: dialects that get the infix operator')
    d('moduloFn', 'Fn', '.' + FN[fmt[:-len('(%s, %s)')]], 'SQLModulo.__sqlrepr__: function used elsewhere, called as f(s1, s2)')
    out += ['', 'end SqlObjVerif.Expr.Extracted']
    return '\n'.join(out) + '\n'
