"""GUARD of the hand-written CALLER layer of the translated concurrent system (property C09).

`Model/ConcX.lean` interleaves the `CacheFactory` methods that `pycache.py` translates from /repo's `cache.py`; the code
that CALLS them is an assumed interface there (control states `CPc`, `onReturn`): `CacheSet.get / put / finishPut /
created / expire / weakrefAll` and the cache-facing skeleton of `SQLObject.get` / `_SO_finishCreate` in `main.py`.
This extractor reads those callers from the AST and REFUSES (ExtractError) a source whose shape is no longer the one
the interface states; what it found is recorded in `Extracted/PyCacheSteps.lean` (documentation, no proof depends on
the strings).  Checked:
  * each `CacheSet` method in scope is, statement for statement, the expected text (the lookup in `self.caches`, the
    atomic `setdefault` on first use, the delegation to the factory method of the same name);
  * `SQLObject.get`: `val = cache.get(id, cls)`; then `if val is None:` whose body is ONE `try` with
    `cache.put(id, cls, val)` as the last statement of the `try` block and exactly `cache.finishPut(cls)` as `finally`;
  * `_SO_finishCreate`: `cache.created(id, self.__class__, self)` comes after the `queryInsertID` call and directly
    before `self._init(id)`.
"""
import ast
from . import ExtractError, parse, find_class, find_func, strip_doc, HEADER, lean_str

TARGET = 'PyCacheSteps'

CACHESET = {
    'get': ['try:\n    return self.caches[cls.__name__].get(id)\nexcept KeyError:\n'
            '    cache = self.caches.setdefault(cls.__name__, CacheFactory(*self.args, **self.kw))\n'
            '    return cache.get(id)'],
    'put': ['self.caches[cls.__name__].put(id, obj)'],
    'finishPut': ['self.caches[cls.__name__].finishPut()'],
    'created': ['try:\n    self.caches[cls.__name__].created(id, obj)\nexcept KeyError:\n'
                '    cache = self.caches.setdefault(cls.__name__, CacheFactory(*self.args, **self.kw))\n'
                '    cache.created(id, obj)'],
    'expire': ['try:\n    self.caches[cls.__name__].expire(id)\nexcept KeyError:\n    pass'],
    'weakrefAll': ['if cls is None:\n    for cache in self.caches.values():\n        cache.expireAll()\n'
                   'elif cls.__name__ in self.caches:\n    self.caches[cls.__name__].expireAll()'],
}


def _src(stmts):
    return [ast.unparse(s) for s in strip_doc(stmts)]


def _check_cacheset(tree):
    cs = find_class(tree, 'CacheSet')
    for name, want in CACHESET.items():
        got = _src(find_func(cs, name).body)
        if got != want:
            raise ExtractError('CacheSet.%s changed (the caller layer of Model/ConcX.lean assumes %r): %r' % (name, want, got))


def _check_get(tree):
    so = find_class(tree, 'SQLObject')
    fn = find_func(so, 'get')
    body = strip_doc(fn.body)
    idx = [k for k, s in enumerate(body) if ast.unparse(s) == 'val = cache.get(id, cls)']
    if len(idx) != 1:
        raise ExtractError('SQLObject.get: expected exactly one `val = cache.get(id, cls)`')
    k = idx[0]
    if k + 1 >= len(body) or not isinstance(body[k + 1], ast.If) or ast.unparse(body[k + 1].test) != 'val is None':
        raise ExtractError('SQLObject.get: `if val is None:` must follow the cache lookup')
    miss = body[k + 1].body
    if len(miss) != 1 or not isinstance(miss[0], ast.Try) or miss[0].handlers or miss[0].orelse:
        raise ExtractError('SQLObject.get: the miss path must be one try/finally')
    t = miss[0]
    if _src(t.finalbody) != ['cache.finishPut(cls)']:
        raise ExtractError('SQLObject.get: finally must be exactly cache.finishPut(cls): %r' % (_src(t.finalbody),))
    if not t.body or ast.unparse(t.body[-1]) != 'cache.put(id, cls, val)':
        raise ExtractError('SQLObject.get: cache.put(id, cls, val) must be the last statement of the try block')
    for s in body[k + 2:] + body[:k]:
        for n in ast.walk(s):
            if isinstance(n, ast.Attribute) and isinstance(n.value, ast.Name) and n.value.id == 'cache' \
                    and n.attr in ('get', 'put', 'finishPut', 'created', 'expire'):
                raise ExtractError('SQLObject.get: another cache call outside the modelled skeleton: %s' % ast.unparse(s))
    return [ast.unparse(body[k]), 'if val is None: try: ...; cache.put(id, cls, val) finally: cache.finishPut(cls)']


def _check_create(tree):
    so = find_class(tree, 'SQLObject')
    fn = find_func(so, '_SO_finishCreate')
    body = strip_doc(fn.body)
    src = [ast.unparse(s) for s in body]
    ins = [k for k, s in enumerate(src) if 'queryInsertID' in s]
    cr = [k for k, s in enumerate(src) if s == 'cache.created(id, self.__class__, self)']
    if len(ins) != 1 or len(cr) != 1 or not ins[0] < cr[0]:
        raise ExtractError('_SO_finishCreate: expected queryInsertID … then cache.created(id, self.__class__, self)')
    if cr[0] + 1 >= len(src) or src[cr[0] + 1] != 'self._init(id)':
        raise ExtractError('_SO_finishCreate: self._init(id) must directly follow cache.created')
    return ['queryInsertID', src[cr[0]], src[cr[0] + 1]]


def extract(repo):
    ctree = parse(repo, 'sqlobject/cache.py')
    mtree = parse(repo, 'sqlobject/main.py')
    _check_cacheset(ctree)
    g = _check_get(mtree)
    c = _check_create(mtree)
    lines = [HEADER % 'pycachesteps', '',
             '/-! The caller layer `Model/ConcX.lean` assumes, as found (and accepted) in /repo on this run. -/',
             'namespace SqlObjVerif.PyCacheSteps', '',
             '/-- `CacheSet` methods whose text is the expected one -/',
             'def cacheSetChecked : List String := [%s]' % ', '.join(lean_str(n) for n in sorted(CACHESET)),
             '/-- the skeleton of `SQLObject.get` -/',
             'def getSkeleton : List String := [%s]' % ', '.join(lean_str(x) for x in g),
             '/-- the skeleton of `_SO_finishCreate` -/',
             'def createSkeleton : List String := [%s]' % ', '.join(lean_str(x) for x in c), '',
             'end SqlObjVerif.PyCacheSteps']
    return '\n'.join(lines) + '\n'
