"""TRANSLATOR: the column validators of sqlobject/col.py (+ the read loop of main.py) -> PyCodec blocks.

`IntValidator.to_python`, `BoolValidator.to_python`, `StringValidator.to_python`, `UnicodeStringValidator.to_python /
from_python`, `EnumValidator.to_python`, `ForeignKeyValidator.from_python`, `DateTimeValidator.to_python / from_python`,
`DateValidator.to_python`, `TimeValidator.to_python`, `DecimalValidator.to_python / from_python`,
`BinaryValidator.to_python / from_python`, and `SQLObject._SO_selectInit` are translated statement by statement into the
deep embedding of `lean/SqlObjVerif/Model/PyCodec.lean`; the `createValidators` methods of the column classes are read
as the list of validator classes they build, in order.  Anything outside the fragment raises ExtractError.
Conventions of the translation:
  * locals are numbered in order of first binding, the parameters (`self`, `value`, `state`) first; an attribute of
    `self` that the function ASSIGNS (`self.fkIDType`, `self._cachedValue`) gets a slot in the same numbering (reads of
    it fall back to the object while the slot is unbound): a behaviour-preserving rename of a local gives the same term;
  * every top-level statement of a function becomes its own definition `<f>_s<k>` and the function is the block of
    these; the body of the n-th `for` loop (source order) is `<f>_for<n>`;
  * a NAME that is not a local is a module-level name (`.glob`): `int`, `long`, `PY2`, `unicode_type`, `Decimal`, …;
    `<module>.<name>` for the modules the file imports (`datetime`, `sqlbuilder`, `validators`, `time`) is the dotted
    module-level name (`.glob "datetime.datetime"`);
  * `raise C(msg, …)` is translated as `raise C`, `assert c, msg` as `assert c` (the message is not evaluated, see
    Model/PyCodec.lean);
  * `x += e` is translated as `x = x + e`; `x[-1] = v` is the only item assignment;
  * `from_python = to_python` in the class body is checked and emitted as `def <f>FromPython := <f>ToPython`.
"""
import ast
from . import ExtractError, parse, find_class, find_func, strip_doc, HEADER, lean_str, lean_nat_list

TARGET = 'PyCodec'

CMP = {ast.Eq: '.eq', ast.NotEq: '.ne', ast.Lt: '.lt', ast.LtE: '.le', ast.Gt: '.gt', ast.GtE: '.ge',
       ast.In: '.isIn', ast.NotIn: '.notIn'}
BIN = {ast.Add: '.add', ast.Sub: '.sub', ast.Mult: '.mul', ast.FloorDiv: '.floordiv', ast.Mod: '.mod'}
MODULES = ('datetime', 'sqlbuilder', 'validators', 'time', 'pickle', 'json', 'compound', 'events')

COL = 'sqlobject/col.py'
# (file, class, python name, lean name, alias: `from_python = to_python` expected in the class body?)
FUNCTIONS = [
    (COL, 'IntValidator', 'to_python', 'intToPython', 'intFromPython'),
    (COL, 'BoolValidator', 'to_python', 'boolToPython', 'boolFromPython'),
    (COL, 'StringValidator', 'to_python', 'stringToPython', 'stringFromPython'),
    (COL, 'UnicodeStringValidator', 'to_python', 'unicodeToPython', None),
    (COL, 'UnicodeStringValidator', 'from_python', 'unicodeFromPython', None),
    (COL, 'EnumValidator', 'to_python', 'enumToPython', 'enumFromPython'),
    (COL, 'ForeignKeyValidator', 'from_python', 'fkFromPython', None),
    (COL, 'DateTimeValidator', 'to_python', 'dtToPython', None),
    (COL, 'DateTimeValidator', 'from_python', 'dtFromPython', None),
    (COL, 'DateValidator', 'to_python', 'dateToPython', 'dateFromPython'),
    (COL, 'TimeValidator', 'to_python', 'timeToPython', 'timeFromPython'),
    (COL, 'DecimalValidator', 'to_python', 'decToPython', None),
    (COL, 'DecimalValidator', 'from_python', 'decFromPython', None),
    (COL, 'BinaryValidator', 'to_python', 'binToPython', None),
    (COL, 'BinaryValidator', 'from_python', 'binFromPython', None),
    (COL, 'FloatValidator', 'to_python', 'floatToPython', 'floatFromPython'),
    (COL, 'DecimalStringValidator', 'to_python', 'decStrToPython', None),
    (COL, 'DecimalStringValidator', 'from_python', 'decStrFromPython', None),
    (COL, 'PickleValidator', 'to_python', 'pickleToPython', None),
    (COL, 'PickleValidator', 'from_python', 'pickleFromPython', None),
    (COL, 'UuidValidator', 'to_python', 'uuidToPython', None),
    (COL, 'UuidValidator', 'from_python', 'uuidFromPython', None),
    (COL, 'JSONValidator', 'to_python', 'jsonToPython', None),
    (COL, 'JSONValidator', 'from_python', 'jsonFromPython', None),
    ('sqlobject/main.py', 'SQLObject', '_SO_selectInit', 'selectInit', None),
]

# column class -> lean name of its validator chain
CHAINS = [
    ('SOCol', 'chainCol'), ('SOStringCol', 'chainString'), ('SOUnicodeCol', 'chainUnicode'), ('SOIntCol', 'chainInt'),
    ('SOBoolCol', 'chainBool'), ('SOForeignKey', 'chainForeignKey'), ('SOEnumCol', 'chainEnum'),
    ('SODateTimeCol', 'chainDateTime'), ('SODateCol', 'chainDate'), ('SOTimeCol', 'chainTime'),
    ('SODecimalCol', 'chainDecimal'), ('SOBLOBCol', 'chainBLOB'), ('SOFloatCol', 'chainFloat'),
    ('SODecimalStringCol', 'chainDecimalString'), ('SOPickleCol', 'chainPickle'), ('SOUuidCol', 'chainUuid'),
    ('SOJSONCol', 'chainJSON'),
]


def _nats(s):
    return lean_nat_list(s)


class Fn(object):
    def __init__(self, fn, lean, where):
        self.fn, self.lean, self.where = fn, lean, where
        a = fn.args
        if a.kwonlyargs or a.posonlyargs or a.vararg or a.kwarg or a.defaults:
            self.fail('unexpected signature')
        if fn.decorator_list:
            self.fail('unexpected decorator')
        self.params = [x.arg for x in a.args]
        if self.params[:1] != ['self']:
            self.fail('first parameter is not self')
        self.vars = list(self.params)
        self.loops = []
        body = strip_doc(fn.body)
        self._collect(body)
        self.stmts = [(self.stmt(s), s) for s in body]

    def fail(self, what, n=None):
        raise ExtractError('%s: %s%s' % (self.where, what,
                                         (': ' + ast.unparse(n).split('\n')[0]) if n is not None else ''))

    # ---- names ---------------------------------------------------------------------------
    def _selfattr(self, t):
        return isinstance(t, ast.Attribute) and isinstance(t.value, ast.Name) and t.value.id == 'self'

    def _collect(self, stmts):
        m = self

        def bind(t):
            if isinstance(t, ast.Name):
                if t.id not in m.vars:
                    m.vars.append(t.id)
            elif isinstance(t, ast.Tuple):
                for e in t.elts:
                    if not isinstance(e, ast.Name):
                        m.fail('unpacking target outside the fragment', t)
                    bind(e)
            elif m._selfattr(t):
                if 'self.' + t.attr not in m.vars:
                    m.vars.append('self.' + t.attr)
            elif isinstance(t, ast.Subscript) and isinstance(t.value, ast.Name):
                pass
            else:
                m.fail('assignment target outside the fragment', t)

        class V(ast.NodeVisitor):
            def visit_Assign(s, n):
                s.visit(n.value)
                for t in n.targets:
                    bind(t)

            def visit_AugAssign(s, n):
                s.visit(n.value)
                bind(n.target)

            def visit_For(s, n):
                s.visit(n.iter)
                bind(n.target)
                for b in n.body:
                    s.visit(b)

            def visit_ExceptHandler(s, n):
                if n.name is not None:
                    m.fail('except … as name', n)
                for b in n.body:
                    s.visit(b)

            def visit_NamedExpr(s, n):
                m.fail('walrus', n)

            def visit_ListComp(s, n):
                m.fail('comprehension', n)
            visit_SetComp = visit_DictComp = visit_GeneratorExp = visit_ListComp

            def visit_Lambda(s, n):
                m.fail('lambda', n)

            def visit_FunctionDef(s, n):
                m.fail('nested function', n)

            def visit_Global(s, n):
                m.fail('global', n)
            visit_Nonlocal = visit_Global

            def visit_With(s, n):
                m.fail('with', n)

            def visit_While(s, n):
                m.fail('while', n)

            def visit_Delete(s, n):
                m.fail('del', n)

        v = V()
        for st in stmts:
            v.visit(st)

    def var(self, name, n=None):
        if name not in self.vars:
            self.fail('unknown name %s' % name, n)
        return self.vars.index(name)

    # ---- expressions ---------------------------------------------------------------------
    def exprs(self, es):
        out = '.nil'
        for e in reversed(es):
            out = '(.cons %s %s)' % (self.expr(e), out)
        return out

    def kwargs(self, kws, n):
        if any(k.arg is None for k in kws):
            self.fail('** arguments', n)
        return '[%s]' % ', '.join(lean_str(k.arg) for k in kws), self.exprs([k.value for k in kws])

    def expr(self, n):
        m = self
        if isinstance(n, ast.Constant):
            v = n.value
            if v is None:
                return '.none'
            if v is True:
                return '.true'
            if v is False:
                return '.false'
            if isinstance(v, int):
                return '(.int %d)' % v
            if isinstance(v, str):
                return '(.str %s)' % _nats(v)
            m.fail('constant outside the fragment', n)
        if isinstance(n, ast.UnaryOp) and isinstance(n.op, ast.USub) and isinstance(n.operand, ast.Constant) \
                and isinstance(n.operand.value, int) and not isinstance(n.operand.value, bool):
            return '(.int (%d))' % (-n.operand.value)
        if isinstance(n, ast.Name):
            if n.id in m.vars:
                return '(.var %d)' % m.var(n.id)
            return '(.glob %s)' % lean_str(n.id)
        if isinstance(n, ast.Attribute):
            if isinstance(n.value, ast.Name) and n.value.id not in m.vars:
                if n.value.id in MODULES:
                    return '(.glob %s)' % lean_str(n.value.id + '.' + n.attr)
                m.fail('attribute of a module-level name outside the fragment', n)
            if m._selfattr(n) and ('self.' + n.attr) in m.vars:
                return '(.selfAttr %d %s)' % (m.var('self.' + n.attr), lean_str(n.attr))
            return '(.attr %s %s)' % (m.expr(n.value), lean_str(n.attr))
        if isinstance(n, ast.Tuple):
            return '(.tuple %s)' % m.exprs(n.elts)
        if isinstance(n, ast.UnaryOp) and isinstance(n.op, ast.Not):
            return '(.not %s)' % m.expr(n.operand)
        if isinstance(n, ast.BoolOp):
            op = '.and' if isinstance(n.op, ast.And) else '.or'
            out = m.expr(n.values[-1])
            for v in reversed(n.values[:-1]):
                out = '(%s %s %s)' % (op, m.expr(v), out)
            return out
        if isinstance(n, ast.Compare):
            if len(n.ops) != 1:
                m.fail('chained comparison', n)
            op, a, b = n.ops[0], n.left, n.comparators[0]
            if isinstance(op, (ast.Is, ast.IsNot)):
                if not (isinstance(b, ast.Constant) and b.value is None):
                    m.fail('`is` against something other than None', n)
                return '(%s %s)' % ('.isNone' if isinstance(op, ast.Is) else '.isNotNone', m.expr(a))
            if type(op) not in CMP:
                m.fail('comparison outside the fragment', n)
            return '(.cmp %s %s %s)' % (CMP[type(op)], m.expr(a), m.expr(b))
        if isinstance(n, ast.BinOp):
            if type(n.op) not in BIN:
                m.fail('operator outside the fragment', n)
            return '(.bin %s %s %s)' % (BIN[type(n.op)], m.expr(n.left), m.expr(n.right))
        if isinstance(n, ast.Subscript):
            s = n.slice
            if isinstance(s, ast.Slice):
                if s.step is not None:
                    m.fail('slice with a step', n)
                if s.lower is None and s.upper is not None:
                    return '(.sliceTo %s %s)' % (m.expr(n.value), m.expr(s.upper))
                if s.lower is not None and s.upper is not None:
                    return '(.slice %s %s %s)' % (m.expr(n.value), m.expr(s.lower), m.expr(s.upper))
                m.fail('slice outside the fragment', n)
            return '(.index %s %s)' % (m.expr(n.value), m.expr(s))
        if isinstance(n, ast.Call):
            return m.call(n)
        m.fail('expression outside the fragment', n)

    def call(self, n):
        m = self
        f = n.func
        stars = [a for a in n.args if isinstance(a, ast.Starred)]
        if isinstance(f, ast.Name) and f.id not in m.vars:
            if f.id == 'isinstance':
                if len(n.args) != 2 or n.keywords or stars:
                    m.fail('isinstance outside the fragment', n)
                return '(.isinstance %s %s)' % (m.expr(n.args[0]), m.expr(n.args[1]))
            if f.id == 'hasattr':
                if len(n.args) != 2 or n.keywords or stars:
                    m.fail('hasattr outside the fragment', n)
                return '(.hasattr %s %s)' % (m.expr(n.args[0]), m.expr(n.args[1]))
            if f.id in ('getattr', 'setattr'):
                m.fail('%s outside the fragment' % f.id, n)
        if isinstance(f, ast.Attribute) and isinstance(f.value, ast.Call) and isinstance(f.value.func, ast.Name) \
                and f.value.func.id == 'super':
            sa = f.value.args
            if len(sa) != 2 or not isinstance(sa[0], ast.Name) or not (isinstance(sa[1], ast.Name) and sa[1].id == 'self') \
                    or n.keywords or stars:
                m.fail('super call outside the fragment', n)
            return '(.super %s %s %s)' % (lean_str(sa[0].id), lean_str(f.attr), m.exprs(n.args))
        kwn, kwv = m.kwargs(n.keywords, n)
        is_method = isinstance(f, ast.Attribute) and not (
            isinstance(f.value, ast.Name) and f.value.id not in m.vars and f.value.id in MODULES) and not (
            m._selfattr(f) and ('self.' + f.attr) in m.vars)       # `self.fkIDType(value)`: a call of the stored value
        if stars:
            if len(n.args) != 1 or is_method:
                m.fail('star arguments', n)
            return '(.callStar %s %s %s %s)' % (m.expr(f), m.expr(stars[0].value), kwn, kwv)
        if is_method:
            return '(.method %s %s %s %s %s)' % (m.expr(f.value), lean_str(f.attr), m.exprs(n.args), kwn, kwv)
        return '(.call %s %s %s %s)' % (m.expr(f), m.exprs(n.args), kwn, kwv)

    # ---- statements ----------------------------------------------------------------------
    def target(self, t, n):
        if isinstance(t, ast.Name):
            return '(.one %d)' % self.var(t.id)
        if isinstance(t, ast.Tuple) and all(isinstance(e, ast.Name) for e in t.elts):
            return '(.tup [%s])' % ', '.join(str(self.var(e.id)) for e in t.elts)
        self.fail('assignment target outside the fragment', n)

    def block(self, stmts):
        out = '.nil'
        for s in reversed(stmts):
            out = '(.cons %s %s)' % (self.stmt(s), out)
        return out

    def exc_classes(self, t, n):
        if t is None:
            self.fail('bare except', n)
        ts = t.elts if isinstance(t, ast.Tuple) else [t]
        out = []
        for e in ts:
            name = ast.unparse(e)
            if not (isinstance(e, ast.Name) or (isinstance(e, ast.Attribute) and isinstance(e.value, ast.Name))):
                self.fail('exception class outside the fragment', n)
            out.append(name)
        return '[%s]' % ', '.join(lean_str(x) for x in out)

    def stmt(self, n, loop=False):
        m = self
        if isinstance(n, ast.Assign):
            if len(n.targets) != 1:
                m.fail('chained assignment', n)
            t = n.targets[0]
            if isinstance(t, ast.Subscript):
                idx = t.slice
                if isinstance(t.value, ast.Name) and t.value.id in m.vars and isinstance(idx, ast.UnaryOp) \
                        and isinstance(idx.op, ast.USub) and isinstance(idx.operand, ast.Constant) \
                        and idx.operand.value == 1:
                    return '(.setLast %d %s)' % (m.var(t.value.id), m.expr(n.value))
                m.fail('item assignment outside the fragment', n)
            if m._selfattr(t):
                return '(.setSelfAttr %d %s)' % (m.var('self.' + t.attr), m.expr(n.value))
            return '(.assign %s %s)' % (m.target(t, n), m.expr(n.value))
        if isinstance(n, ast.AugAssign):
            if not (type(n.op) in BIN and isinstance(n.target, ast.Name)):
                m.fail('augmented assignment outside the fragment', n)
            x = m.var(n.target.id)
            return '(.assign (.one %d) (.bin %s (.var %d) %s))' % (x, BIN[type(n.op)], x, m.expr(n.value))
        if isinstance(n, ast.If):
            return '(.ite %s %s %s)' % (m.expr(n.test), m.block(n.body), m.block(n.orelse))
        if isinstance(n, ast.For):
            if n.orelse:
                m.fail('for/else', n)
            for sub in ast.walk(n):
                if isinstance(sub, ast.Continue):
                    m.fail('continue', n)
            t = m.target(n.target, n)
            it = m.expr(n.iter)
            k = len(m.loops)
            m.loops.append(None)
            body = m.block(n.body)
            m.loops[k] = (body, n)
            return '(.for %s %s %s_for%d)' % (t, it, m.lean, k)
        if isinstance(n, ast.Try):
            if n.finalbody:
                m.fail('try/finally', n)
            hs = '.nil'
            for h in reversed(n.handlers):
                hs = '(.cons %s %s %s)' % (m.exc_classes(h.type, n), m.block(h.body), hs)
            return '(.try %s %s %s)' % (m.block(n.body), hs, m.block(n.orelse))
        if isinstance(n, ast.Raise):
            e = n.exc
            if n.cause is not None or e is None:
                m.fail('raise outside the fragment', n)
            c = e.func if isinstance(e, ast.Call) else e
            if not (isinstance(c, ast.Attribute) and isinstance(c.value, ast.Name) and c.value.id in MODULES) \
                    and not isinstance(c, ast.Name):
                m.fail('raise outside the fragment', n)
            return '(.raise %s)' % lean_str(ast.unparse(c))
        if isinstance(n, ast.Assert):
            return '(.assert %s)' % m.expr(n.test)
        if isinstance(n, ast.Return):
            return '(.ret %s)' % (m.expr(n.value) if n.value is not None else '.none')
        if isinstance(n, ast.Expr):
            c = n.value
            if isinstance(c, ast.Call) and isinstance(c.func, ast.Name) and c.func.id == 'setattr' \
                    and 'setattr' not in m.vars:
                if len(c.args) != 3 or c.keywords or any(isinstance(a, ast.Starred) for a in c.args):
                    m.fail('setattr outside the fragment', n)
                return '(.setattr %s %s %s)' % tuple(m.expr(a) for a in c.args)
            return '(.expr %s)' % m.expr(n.value)
        if isinstance(n, ast.Break):
            return '.brk'
        if isinstance(n, ast.Pass):
            return '.pass'
        m.fail('statement outside the fragment', n)


def _doc(n):
    line = ast.unparse(n).split('\n')[0]
    return line.replace('-/', '- /').replace('/-', '/ -')


def _alias(cls, where):
    """the class body binds `from_python = to_python` and defines no other from_python"""
    found = False
    for st in cls.body:
        if isinstance(st, ast.FunctionDef) and st.name == 'from_python':
            raise ExtractError('%s: defines its own from_python' % where)
        if isinstance(st, ast.Assign) and any(isinstance(t, ast.Name) and t.id == 'from_python' for t in st.targets):
            if len(st.targets) == 1 and isinstance(st.value, ast.Name) and st.value.id == 'to_python':
                found = True
            else:
                raise ExtractError('%s: from_python is bound to %s' % (where, ast.unparse(st.value)))
    if not found:
        raise ExtractError('%s: `from_python = to_python` not found' % where)


def _bases(cls):
    return [ast.unparse(b) for b in cls.bases]


# ---- createValidators: the list of validator classes, in order ---------------------------------------------------
def _chain(tree, cname, seen=()):
    """[validator class names] built by `<cname>.createValidators()`; `super().createValidators()` is followed along
    the (single) base class.  The date/time columns choose the class by `default_datetime_implementation`: the branch
    of `DATETIME_IMPLEMENTATION` is read (the module sets `default_datetime_implementation = DATETIME_IMPLEMENTATION`,
    checked)."""
    if cname in seen:
        raise ExtractError('createValidators: cyclic bases at %s' % cname)
    cls = find_class(tree, cname)
    fn = None
    for st in cls.body:
        if isinstance(st, ast.FunctionDef) and st.name == 'createValidators':
            fn = st
    if fn is None:
        bs = _bases(cls)
        if len(bs) != 1:
            raise ExtractError('createValidators: %s has bases %r' % (cname, bs))
        return _chain(tree, bs[0], seen + (cname,))
    body = strip_doc(fn.body)
    where = '%s.createValidators' % cname
    bs = _bases(cls)

    vclass = None

    def sup(e):
        """`super(C, self).createValidators(...)` -> chain of the base"""
        if isinstance(e, ast.Call) and isinstance(e.func, ast.Attribute) and e.func.attr == 'createValidators' \
                and isinstance(e.func.value, ast.Call) and ast.unparse(e.func.value.func) == 'super' \
                and [ast.unparse(a) for a in e.func.value.args] == [cname, 'self']:
            if len(bs) != 1:
                raise ExtractError('%s: bases %r' % (where, bs))
            return _chain(tree, bs[0], seen + (cname,))
        return None

    def lst(e):
        nonlocal vclass
        """a list display of validator constructions / a super call / a `+` of those"""
        if isinstance(e, ast.List):
            out = []
            for x in e.elts:
                if isinstance(x, ast.Call) and isinstance(x.func, ast.Name) and x.func.id.endswith('Validator'):
                    out.append(x.func.id)
                elif isinstance(x, ast.Name) and x.id == 'v' and vclass is not None:
                    out.append(vclass)
                else:
                    raise ExtractError('%s: list element %s' % (where, ast.unparse(x)))
            return out
        if isinstance(e, ast.BinOp) and isinstance(e.op, ast.Add):
            return lst(e.left) + lst(e.right)
        s = sup(e)
        if s is not None:
            return s
        raise ExtractError('%s: %s' % (where, ast.unparse(e).split('\n')[0]))

    if len(body) == 1 and isinstance(body[0], ast.Return):
        return lst(body[0].value)
    # `if …: v = C(…) else: v = C(…)` then `return [v] + super().createValidators(…)` (SODecimalStringCol)
    if len(body) == 2 and isinstance(body[0], ast.If) and isinstance(body[1], ast.Return):
        classes = set()
        for br in (body[0].body, body[0].orelse):
            if len(br) != 1 or not (isinstance(br[0], ast.Assign) and ast.unparse(br[0].targets[0]) == 'v'
                                    and isinstance(br[0].value, ast.Call) and isinstance(br[0].value.func, ast.Name)):
                raise ExtractError('%s: branch outside the fragment' % where)
            classes.add(br[0].value.func.id)
        if len(classes) != 1:
            raise ExtractError('%s: the branches build different validators %r' % (where, sorted(classes)))
        vclass = classes.pop()
        return lst(body[1].value)
    # the date/time shape: `_validators = super().createValidators()`, if-chain choosing validatorClass,
    # `_validators.insert(0, validatorClass(...))`, `return _validators`
    if len(body) >= 4 and isinstance(body[0], ast.Assign) and ast.unparse(body[0].targets[0]) == '_validators' \
            and isinstance(body[1], ast.If) and isinstance(body[-1], ast.Return) \
            and ast.unparse(body[-1].value) == '_validators':
        base = sup(body[0].value)
        if base is None:
            raise ExtractError('%s: %s' % (where, ast.unparse(body[0])))
        test = body[1].test
        if ast.unparse(test) != 'default_datetime_implementation == DATETIME_IMPLEMENTATION':
            raise ExtractError('%s: first test is %s' % (where, ast.unparse(test)))
        b = body[1].body
        if len(b) != 1 or not isinstance(b[0], ast.Assign) or ast.unparse(b[0].targets[0]) != 'validatorClass' \
                or not isinstance(b[0].value, ast.Name):
            raise ExtractError('%s: branch %s' % (where, ast.unparse(b[0])))
        vcls = b[0].value.id
        guard = body[-2]
        if not (isinstance(guard, ast.If) and ast.unparse(guard.test) == 'default_datetime_implementation'
                and len(guard.body) == 1 and not guard.orelse):
            raise ExtractError('%s: %s' % (where, ast.unparse(guard).split('\n')[0]))
        ins = guard.body[0]
        if not (isinstance(ins, ast.Expr) and isinstance(ins.value, ast.Call)
                and ast.unparse(ins.value.func) == '_validators.insert' and len(ins.value.args) == 2
                and ast.unparse(ins.value.args[0]) == '0' and isinstance(ins.value.args[1], ast.Call)
                and ast.unparse(ins.value.args[1].func) == 'validatorClass'):
            raise ExtractError('%s: %s' % (where, ast.unparse(ins).split('\n')[0]))
        for st in body[2:-2]:
            raise ExtractError('%s: unexpected statement %s' % (where, ast.unparse(st).split('\n')[0]))
        return [vcls] + base
    raise ExtractError('%s: shape outside the fragment' % where)


def _check_datetime_impl(tree):
    ok = False
    for st in tree.body:
        if isinstance(st, ast.Assign) and ast.unparse(st.targets[0]) == 'default_datetime_implementation':
            ok = ast.unparse(st.value) == 'DATETIME_IMPLEMENTATION'
    if not ok:
        raise ExtractError('col.py: default_datetime_implementation is not DATETIME_IMPLEMENTATION')


# ---- module-level names ------------------------------------------------------------------------------------------
def _py3_names(repo):
    """compat.py: the Python 3 branch of `if PY2: … else: …`; col.py: `if not PY2: long = int; unicode = str`"""
    out = {}
    tree = parse(repo, 'sqlobject/compat.py')
    for st in tree.body:
        if isinstance(st, ast.If) and ast.unparse(st.test) == 'PY2':
            for s in st.orelse:
                if isinstance(s, ast.Assign) and len(s.targets) == 1 and isinstance(s.targets[0], ast.Name) \
                        and isinstance(s.value, ast.Name):
                    out[s.targets[0].id] = s.value.id
    tree = parse(repo, COL)
    for st in tree.body:
        if isinstance(st, ast.If) and ast.unparse(st.test) == 'not PY2':
            for s in st.body:
                if isinstance(s, ast.Assign) and len(s.targets) == 1 and isinstance(s.targets[0], ast.Name) \
                        and isinstance(s.value, ast.Name):
                    out[s.targets[0].id] = s.value.id
    for need in ('string_type', 'unicode_type', 'buffer_type', 'long', 'unicode'):
        if need not in out:
            raise ExtractError('module-level name %s: no Python 3 binding found' % need)
    return out


def _fmt_attr(tree, cname, attr):
    cls = find_class(tree, cname)
    for st in cls.body:
        if isinstance(st, ast.Assign) and len(st.targets) == 1 and isinstance(st.targets[0], ast.Name) \
                and st.targets[0].id == attr and isinstance(st.value, ast.Constant) and isinstance(st.value.value, str):
            return st.value.value
    raise ExtractError('%s.%s: no string constant' % (cname, attr))


def _format_kw(tree, cname, vname, attr):
    """`validatorClass(name=self.name, format=self.<attr>)` in `<cname>.createValidators`"""
    fn = find_func(find_class(tree, cname), 'createValidators')
    for n in ast.walk(fn):
        if isinstance(n, ast.Call) and ast.unparse(n.func) == 'validatorClass':
            for k in n.keywords:
                if k.arg == 'format':
                    if ast.unparse(k.value) != 'self.' + attr:
                        raise ExtractError('%s.createValidators: format=%s' % (cname, ast.unparse(k.value)))
                    return
    raise ExtractError('%s.createValidators: no format= keyword' % cname)


def extract(repo):
    out = [HEADER % 'pycodec', 'import SqlObjVerif.Model.PyCodec', '',
           'namespace SqlObjVerif.PyCodec.Extracted', 'open SqlObjVerif.PyCodec', '']
    trees = {}
    for rel, cname, pyname, lean, alias in FUNCTIONS:
        if rel not in trees:
            trees[rel] = parse(repo, rel)
        tree = trees[rel]
        cls = find_class(tree, cname)
        fn = find_func(cls, pyname)
        f = Fn(fn, lean, '%s.%s' % (cname, pyname))
        out.append('/-! ### `%s.%s(%s)`: locals %s -/' % (
            cname, pyname, ', '.join(f.params), ', '.join('%s=%d' % (v, i) for i, v in enumerate(f.vars))))
        out.append('')
        for k, (body, node) in enumerate(f.loops):
            out.append('/-- body of `%s` -/' % _doc(node))
            out.append('def %s_for%d : Block :=\n  %s' % (lean, k, body))
            out.append('')
        for k, (term, node) in enumerate(f.stmts):
            out.append('/-- `%s` -/' % _doc(node))
            out.append('def %s_s%d : Stmt :=\n  %s' % (lean, k, term))
            out.append('')
        blk = '.nil'
        for k in reversed(range(len(f.stmts))):
            blk = '(.cons %s_s%d %s)' % (lean, k, blk)
        out.append('def %s : Block :=\n  %s' % (lean, blk))
        out.append('')
        if alias:
            _alias(cls, cname)
            out.append('/-- `%s`: `from_python = to_python` -/' % cname)
            out.append('def %s : Block := %s' % (alias, lean))
            out.append('')
    tree = trees[COL]
    _check_datetime_impl(tree)
    out.append('/-! ### `createValidators`: the validator classes a column builds, in list order -/')
    out.append('')
    for cname, lean in CHAINS:
        out.append('/-- `%s.createValidators()` -/' % cname)
        out.append('def %s : List String := [%s]' % (lean, ', '.join(lean_str(x) for x in _chain(tree, cname))))
    out.append('')
    out.append('/-! ### module-level names (Python 3 branches of compat.py / col.py) -/')
    out.append('')
    names = _py3_names(repo)
    out.append('def py3Names : List (String × String) := [%s]' % ', '.join(
        '(%s, %s)' % (lean_str(k), lean_str(v)) for k, v in sorted(names.items())))
    out.append('')
    out.append('/-! ### the `format` the date/time validators are built with -/')
    out.append('')
    for cname, attr, lean in (('SODateTimeCol', 'datetimeFormat', 'fmtDateTimeStr'), ('SODateCol', 'dateFormat', 'fmtDateStr'),
                              ('SOTimeCol', 'timeFormat', 'fmtTimeStr')):
        _format_kw(tree, cname, None, attr)
        s = _fmt_attr(tree, cname, attr)
        out.append('/-- `%s.%s = %r`, passed as `format=` -/' % (cname, attr, s))
        out.append('def %s : Codec.Str := %s' % (lean, _nats(s)))
    out.append('')
    out.append('end SqlObjVerif.PyCodec.Extracted')
    return '\n'.join(out) + '\n'
