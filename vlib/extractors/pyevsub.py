"""TRANSLATOR: the subclass-time copy of listeners -> PyVersion blocks (C19).

`sqlobject/events.py:_makeSubclassConnectionsPost` is translated statement by statement with the translator of
`pyevents.py` / `pyversion.py` (same conventions; loop bodies become `subPost_loop<n>`).  One normalisation is applied
first: inside a loop body, `if c: continue` followed by the statements `rest` is rewritten to `if c: pass else: rest`
(the PyVersion fragment has no `continue`; the two are the same program when the `if` is a direct statement of the loop
body and `continue` its only statement — anything else raises ExtractError).
Also checked, as data: `_makeSubclassConnections` only does `early_funcs.insert(0, _makeSubclassConnectionsPost)` and is
connected to `ClassCreateSignal` at module level (`dispatcher.connect(_makeSubclassConnections, signal=ClassCreateSignal)`).
"""
import ast
from . import ExtractError, parse, find_func, strip_doc, HEADER
from . import pyversion, pyevents

TARGET = 'PyEvSub'
EVENTS = 'sqlobject/events.py'


def norm(body, in_loop):
    out = []
    for i, s in enumerate(body):
        if in_loop and isinstance(s, ast.If) and len(s.body) == 1 and isinstance(s.body[0], ast.Continue) and not s.orelse:
            out.append(ast.If(test=s.test, body=[ast.Pass()], orelse=norm(body[i + 1:], in_loop) or [ast.Pass()]))
            return out
        if isinstance(s, ast.For):
            s.body = norm(s.body, True)
        elif any(isinstance(x, ast.Continue) for x in ast.walk(s)):
            raise ExtractError('continue outside the normalised shape: %s' % ast.unparse(s).split('\n')[0])
        out.append(s)
    return out


class Func(pyevents.Func):
    def loop(self, body):
        return pyversion.Func.loop(self, body)


def extract(repo):
    ev = parse(repo, EVENTS)
    imported, defined, assigns = pyevents.module_names(ev)
    if sum(1 for s in ast.walk(ev) if isinstance(s, ast.FunctionDef)
           and s.name in ('_makeSubclassConnectionsPost', '_makeSubclassConnections')) != 2:
        raise ExtractError('events.py no longer defines _makeSubclassConnections(Post) exactly once each')
    pre = find_func(ev, '_makeSubclassConnections')
    if [ast.unparse(s) for s in strip_doc(pre.body)] != ['early_funcs.insert(0, _makeSubclassConnectionsPost)'] \
            or [a.arg for a in pre.args.args] != ['new_class_name', 'bases', 'new_attrs', 'post_funcs', 'early_funcs']:
        raise ExtractError('_makeSubclassConnections no longer just registers _makeSubclassConnectionsPost as an early func')
    tops = [ast.unparse(s) for s in ev.body if isinstance(s, ast.Expr)]
    if 'dispatcher.connect(_makeSubclassConnections, signal=ClassCreateSignal)' not in tops:
        raise ExtractError('_makeSubclassConnections is no longer connected to ClassCreateSignal')
    fn = find_func(ev, '_makeSubclassConnectionsPost')
    fn.body = norm(strip_doc(fn.body), False)
    ast.fix_missing_locations(fn)
    pyversion.LEAN_NAMES[(None, '_makeSubclassConnectionsPost')] = 'subPost'
    m = Func(fn, None, imported, defined, set())
    lines = [HEADER % 'pyevsub', 'import SqlObjVerif.Model.PyVersion', '',
             'namespace SqlObjVerif.PyVer.ExtractedEvSub', 'open SqlObjVerif.PyVer', '']
    for i, b in reversed(list(enumerate(m.loops))):     # inner loops first: an outer body names the inner one
        lines += ['/-- body of loop %d of `events._makeSubclassConnectionsPost` -/' % i,
                  'def subPost_loop%d : Block :=\n  %s' % (i, b), '']
    lines += ['/-- `events._makeSubclassConnectionsPost(%s)`, translated (`if c: continue` normalised); locals: %s -/'
              % (', '.join(m.params), ', '.join('%s=%d' % (v, i) for i, v in enumerate(m.vars))),
              'def subPostProg : Block :=\n  %s' % m.body,
              'def subPost_nargs : Nat := %d' % len(m.params),
              'def subPost_nlocals : Nat := %d' % (len(m.vars) - len(m.params)), '']
    lines.append('end SqlObjVerif.PyVer.ExtractedEvSub')
    return '\n'.join(lines) + '\n'
