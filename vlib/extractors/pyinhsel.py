"""TRANSLATOR: the SELECT side of sqlobject/inheritance/__init__.py and iteration.py -> PyInhSel blocks.

`InheritableSelectResults.__init__`, `InheritableSQLObject.select` (with its nested functions), `selectBy` and
`_findAlternateID`, `InheritableIteration.next` and `fetchChildren` (the `ENABLED` entries of `TARGETS`; the other
entries are not translated yet) are translated statement by statement into the deep embedding of
`lean/SqlObjVerif/Model/PyInhSel.lean`.  Anything outside the fragment raises ExtractError.  Conventions (those of
pyinherit.py, extended):
  * the first parameter (`self` / `cls`) is `.self`; the other parameters (a `**kw` parameter counts as one, a dict
    value) and the locals are numbered in order of first binding, parameters first; temporaries of hoisted calls come
    last; a behaviour-preserving rename of a local gives the same term;
  * every call other than the built-in value operations (`list`, `str`, `len`, `getattr`, `isinstance`, `hasattr`,
    `reduce(sqlbuilder.AND, …)`, `sqlbuilder.AND / IN`, `d.get / d.copy / d.items` of a dict local) goes through the
    interpreter's `call` (method of a value), `callFn` (a module-level function or a local) or `super` parameter and must
    be hoistable to a statement of its own: `x = CALL`, `CALL`, `return CALL`, `obj.a = CALL`, `for x in CALL`,
    `x.update(CALL)`, `CALL.m(…)` (receiver), each evaluated where Python evaluates it;
  * container kinds are inferred syntactically: a local bound only by `{}` / `d.copy()` / a `**kw` parameter is a DICT, a
    local bound only by `[]` is a LIST, a local that is the receiver of `.add(…)` is a SET; `self.<a>` is a dict / list
    when the class assigns `self.<a> = {}` / `[]` / `list(…)` somewhere; containers are owned by one name (no aliasing of
    a container that is changed afterwards);
  * `raise C(msg)` keeps the class only; the body of the n-th loop of a function (source order) becomes its own
    definition `<f>_loop<n>` (+ `<f>_loop<n>_cond` for a `while`, `<f>_loop<n>_else` for a loop `else`).
"""
import ast
from . import ExtractError, parse, find_class, find_func, strip_doc, HEADER, lean_str

TARGET = 'PyInhSel'
REL = 'sqlobject/inheritance/__init__.py'
REL_IT = 'sqlobject/inheritance/iteration.py'
MODULES = ('sqlbuilder', 'dbconnection', 'classregistry', 'events')
FUNCS = ('tablesUsedSet', 'findClass')          # module-level functions called by name
EXC_PAT = {'TypeError': '.typeError', 'KeyError': '.keyError', 'AttributeError': '.attributeError',
           'Exception': '.exception', 'BaseException': '.baseException'}
EXC_CLS = {'TypeError': '.typeError', 'KeyError': '.keyError', 'AttributeError': '.attributeError',
           'StopIteration': '.stopIteration'}

# (file, class, function, lean name)
TARGETS = [
    (REL, 'InheritableSelectResults', '__init__', 'selInit'),
    (REL, 'InheritableSQLObject', 'select', 'select'),
    (REL, 'InheritableSQLObject', 'selectBy', 'selectBy'),
    (REL, 'InheritableSQLObject', '_findAlternateID', 'findAlternateID'),
    (REL_IT, 'InheritableIteration', 'next', 'iterNext'),
    (REL_IT, 'InheritableIteration', 'fetchChildren', 'fetchChildren'),
]


def _strs(path):
    return '[' + ', '.join(lean_str(p) for p in path) + ']'


def _attr_chain(n):
    path = []
    while isinstance(n, ast.Attribute):
        path.append(n.attr)
        n = n.value
    return n, list(reversed(path))


def _is_none(n):
    return isinstance(n, ast.Constant) and n.value is None


def _upd_comp(n):
    """`X.update(dict([(K, V) for (A, B) in IT if C]))` -> (X, K, V, A, B, IT, C) or None"""
    if not (isinstance(n, ast.Call) and isinstance(n.func, ast.Attribute) and n.func.attr == 'update'
            and isinstance(n.func.value, ast.Name) and len(n.args) == 1 and not n.keywords):
        return None
    d = n.args[0]
    if not (isinstance(d, ast.Call) and isinstance(d.func, ast.Name) and d.func.id == 'dict' and len(d.args) == 1
            and not d.keywords and isinstance(d.args[0], ast.ListComp)):
        return None
    lc = d.args[0]
    if len(lc.generators) != 1:
        return None
    g = lc.generators[0]
    if g.is_async or len(g.ifs) != 1 or not (isinstance(g.target, ast.Tuple) and len(g.target.elts) == 2
                                             and all(isinstance(t, ast.Name) for t in g.target.elts)):
        return None
    if not (isinstance(lc.elt, ast.Tuple) and len(lc.elt.elts) == 2):
        return None
    if g.target.elts[0].id == g.target.elts[1].id:
        return None
    return (n.func.value.id, lc.elt.elts[0], lc.elt.elts[1], g.target.elts[0].id, g.target.elts[1].id, g.iter, g.ifs[0])


class Func(object):
    allow_nested = True

    def __init__(self, cls, fn, lname):
        self.cls = cls
        self.fn = fn
        self.name = fn.name
        self.lname = lname
        a = fn.args
        decos = [ast.unparse(d) for d in fn.decorator_list]
        if a.kwonlyargs or a.posonlyargs or not a.args or decos not in ([], ['classmethod']):
            raise ExtractError('unexpected signature of %s' % fn.name)
        self.me = a.args[0].arg
        if self.me != ('cls' if decos else 'self'):
            raise ExtractError('%s: first parameter is %s' % (fn.name, self.me))
        self.params = [x.arg for x in a.args[1:]]
        if a.vararg:
            self.params.append(a.vararg.arg)
        self.kwparam = a.kwarg.arg if a.kwarg else None
        if self.kwparam:
            self.params.append(self.kwparam)
        self.vars = list(self.params)
        self.kinds = {}
        self.loops = []
        self.conds = {}
        self.elses = {}
        self.nested = {}       # name -> FunctionDef of a nested function
        self.caps = []         # locals of this function the nested functions read
        self.procs = []        # (name, NestedFunc)
        body = strip_doc(fn.body)
        self._collect(body)
        self._nested_setup(body)
        self.defaults = [self.expr(d) for d in a.defaults]
        self.body = self.block(body)
        for name, node in self.nested.items():
            self.procs.append((name, NestedFunc(self, node)))

    def _nested_setup(self, body):
        if not self.nested:
            return
        first = min(n.lineno for n in self.nested.values())
        used = set()
        for node in self.nested.values():
            a = node.args
            if a.kwonlyargs or a.posonlyargs or a.vararg or a.kwarg or a.defaults or len(a.args) != 1 \
                    or node.decorator_list:
                self.fail('nested function %s: signature outside the fragment' % node.name)
            own = {a.args[0].arg}
            for x in ast.walk(node):
                if isinstance(x, ast.Name) and isinstance(x.ctx, ast.Store):
                    own.add(x.id)
                if isinstance(x, (ast.Global, ast.Nonlocal)):
                    self.fail('nested function %s: global / nonlocal' % node.name)
            for x in ast.walk(node):
                if isinstance(x, ast.Name) and isinstance(x.ctx, ast.Load) and x.id not in own \
                        and x.id in self.vars:
                    used.add(x.id)
                if isinstance(x, ast.Name) and x.id == self.me:
                    self.fail('nested function %s reads %s' % (node.name, self.me))
        self.caps = [v for v in self.vars if v in used]
        # the captured locals are bound before the nested functions are defined and never again
        for sub in body:
            for x in ast.walk(sub):
                if isinstance(x, ast.Name) and isinstance(x.ctx, (ast.Store, ast.Del)) and x.id in used \
                        and getattr(x, 'lineno', 0) >= first and not self._inside_nested(x):
                    self.fail('captured local %s is rebound after the nested functions are defined' % x.id)

    def _inside_nested(self, x):
        for node in self.nested.values():
            if node.lineno <= x.lineno <= node.end_lineno:
                return True
        return False

    def fail(self, what, n=None):
        raise ExtractError('%s: %s%s' % (self.name, what, (': ' + ast.unparse(n).split('\n')[0]) if n is not None else ''))

    # ---- names and container kinds ---------------------------------------------------------
    def _collect(self, stmts):
        m = self
        bindings = {}      # name -> list of kinds of the bound values
        aliases = []       # (lineno, target, source)
        mutated = {}       # name -> last line of a mutation

        def kind_of_value(v):
            if isinstance(v, ast.Dict) and not v.keys:
                return 'dict'
            if isinstance(v, ast.List) and not v.elts:
                return 'list'
            if isinstance(v, ast.Call) and isinstance(v.func, ast.Attribute) and v.func.attr == 'copy' \
                    and isinstance(v.func.value, ast.Name) and not v.args and not v.keywords:
                return 'copy:' + v.func.value.id
            return 'other'

        def bind(name, kind):
            if name == m.me:
                m.fail('%s is rebound' % m.me)
            bindings.setdefault(name, []).append(kind)
            if name not in m.vars:
                m.vars.append(name)

        class V(ast.NodeVisitor):
            def visit_Assign(s, n):
                if len(n.targets) == 2 and all(isinstance(t, (ast.Name, ast.Subscript)) for t in n.targets):
                    # `ids = d[k] = []`
                    for t in n.targets:
                        if isinstance(t, ast.Name):
                            bind(t.id, kind_of_value(n.value))
                            aliases.append((n.lineno, t.id, '<chained>'))
                    s.generic_visit(n)
                    return
                if len(n.targets) != 1:
                    m.fail('chained assignment', n)
                t = n.targets[0]
                if isinstance(t, ast.Name):
                    bind(t.id, kind_of_value(n.value))
                    if isinstance(n.value, ast.Name):
                        aliases.append((n.lineno, t.id, n.value.id))
                elif isinstance(t, ast.Subscript) and isinstance(t.value, ast.Name):
                    mutated[t.value.id] = n.lineno
                elif isinstance(t, (ast.Tuple, ast.List, ast.Starred)):
                    m.fail('unpacking assignment', n)
                s.generic_visit(n)

            def visit_AugAssign(s, n):
                m.fail('augmented assignment', n)

            visit_AnnAssign = visit_AugAssign

            def visit_For(s, n):
                ts = n.target.elts if isinstance(n.target, ast.Tuple) else [n.target]
                for t in ts:
                    if not isinstance(t, ast.Name):
                        m.fail('loop target outside the fragment', n)
                    bind(t.id, 'other')
                s.generic_visit(n)

            def visit_Call(s, n):
                f = n.func
                uc = _upd_comp(n)
                if uc:
                    # the comprehension's own variables get slots of their own kind: they never leak (the
                    # statement evaluates the comprehension in a scratch environment)
                    mutated[uc[0]] = n.lineno
                    bind(uc[3], 'other')
                    bind(uc[4], 'other')
                    return
                if isinstance(f, ast.Attribute) and isinstance(f.value, ast.Name) \
                        and f.attr in ('add', 'update', 'append', 'pop', 'clear', 'remove', 'insert', 'setdefault',
                                       'sort', 'reverse', 'popitem', 'discard', 'extend'):
                    mutated[f.value.id] = n.lineno
                    if f.attr == 'add':
                        m.kinds[f.value.id] = 'set'
                s.generic_visit(n)

            def visit_Delete(s, n):
                for t in n.targets:
                    if isinstance(t, ast.Subscript) and isinstance(t.value, ast.Name):
                        mutated[t.value.id] = n.lineno
                    elif isinstance(t, ast.Subscript) and isinstance(t.value, ast.Attribute):
                        pass
                    else:
                        m.fail('del statement', n)
                s.generic_visit(n)

            def visit_FunctionDef(s, n):
                if m.allow_nested and n.name not in m.vars and n.name not in m.nested:
                    m.nested[n.name] = n
                    return
                m.fail('nested function')

            def visit_Lambda(s, n):
                m.fail('lambda')

            def visit_ListComp(s, n):
                m.fail('comprehension / generator expression', n)

            visit_GeneratorExp = visit_SetComp = visit_DictComp = visit_ListComp

            def visit_NamedExpr(s, n):
                m.fail('walrus')

            def visit_With(s, n):
                m.fail('with statement')

            def visit_Global(s, n):
                m.fail('global')

            visit_Nonlocal = visit_Global
            visit_Yield = visit_YieldFrom = visit_Await = visit_Global

            def visit_ImportFrom(s, n):
                m.fail('import')

            visit_Import = visit_ImportFrom

            def visit_ExceptHandler(s, n):
                if n.name:
                    m.fail('except … as name')
                s.generic_visit(n)

        v = V()
        for st in stmts:
            v.visit(st)
        if self.kwparam:
            self.kinds[self.kwparam] = 'dict'
        changed = True
        while changed:
            changed = False
            for name, ks in bindings.items():
                if name in self.params or name in self.kinds:
                    continue
                rs = set()
                for k in ks:
                    if k.startswith('copy:'):
                        rs.add(self.kinds.get(k[5:], 'other') if self.kinds.get(k[5:]) == 'dict' else 'other')
                    else:
                        rs.add(k)
                if rs == {'dict'} or rs == {'list'}:
                    self.kinds[name] = rs.pop()
                    changed = True
                elif rs in ({'dict', 'other'}, {'list', 'other'}) and ks[0] in ('dict', 'list') and name in mutated:
                    # `x = []` … `x.append(…)` … `x = reduce(…)`: the container statements are checked at run time
                    # (they are `stuck` on anything but a container value)
                    self.kinds[name] = ks[0]
                    changed = True
        for (ln, tgt, src) in aliases:
            if src == '<chained>':
                continue
            if self.kinds.get(src) in ('dict', 'list', 'set') and mutated.get(src, 0) > ln:
                m.fail('container %s is changed after it was aliased as %s' % (src, tgt))

    def attr_kind(self, path):
        """kind of the container `self.<a>`: what the class assigns to it"""
        if len(path) != 1:
            return None
        kinds = set()
        for n in ast.walk(self.cls):
            if isinstance(n, ast.Assign):
                for t in n.targets:
                    if isinstance(t, ast.Attribute) and isinstance(t.value, ast.Name) and t.value.id == 'self' \
                            and t.attr == path[0]:
                        v = n.value
                        if isinstance(v, ast.Dict) and not v.keys:
                            kinds.add('dict')
                        elif (isinstance(v, ast.List) and not v.elts) or (
                                isinstance(v, ast.Call) and isinstance(v.func, ast.Name) and v.func.id == 'list'):
                            kinds.add('list')
                        else:
                            kinds.add('other')
        return kinds.pop() if len(kinds) == 1 else None

    def var(self, name):
        if name in self.vars:
            return self.vars.index(name)
        self.fail('name %s is not a parameter or local' % name)

    def temp(self):
        self.vars.append('<tmp%d>' % len(self.vars))
        return len(self.vars) - 1

    def is_self_attr(self, n):
        if isinstance(n, ast.Attribute):
            root, path = _attr_chain(n)
            if isinstance(root, ast.Name) and root.id == self.me:
                return path
        return None

    def kind(self, n):
        if isinstance(n, ast.Name):
            return self.kinds.get(n.id)
        p = self.is_self_attr(n)
        if p:
            return self.attr_kind(p)
        return None

    # ---- expressions ---------------------------------------------------------------------
    def const(self, n):
        if isinstance(n, ast.Constant):
            v = n.value
            if v is None:
                return '.none'
            if v is True or v is False:
                return '(.bool %s)' % ('true' if v else 'false')
            if isinstance(v, int) and v >= 0:
                return '(.nat %d)' % v
            if isinstance(v, str):
                return '(.str %s)' % lean_str(v)
        self.fail('constant outside the fragment', n)

    def _glob(self, n):
        """dotted module-level name -> string, or None"""
        root, path = _attr_chain(n)
        if isinstance(root, ast.Name) and root.id not in self.vars and root.id != self.me:
            if (root.id in MODULES and path) or (root.id in FUNCS and not path):
                return '.'.join([root.id] + path)
        return None

    def is_value_call(self, n):
        """calls that are expressions of the fragment"""
        if not isinstance(n, ast.Call):
            return False
        f = n.func
        if isinstance(f, ast.Name) and f.id in ('list', 'str', 'len', 'isinstance', 'hasattr', 'reduce'):
            return True
        if isinstance(f, ast.Name) and f.id == 'getattr' and len(n.args) == 2:
            return True
        if self._glob(f) in ('sqlbuilder.AND', 'sqlbuilder.IN'):
            return True
        if isinstance(f, ast.Attribute) and isinstance(f.value, ast.Name) and self.kinds.get(f.value.id) == 'dict' \
                and f.attr in ('get', 'copy', 'items'):
            return True
        return False

    def exprs(self, ns):
        return '[' + ', '.join(self.expr(a) for a in ns) + ']'

    def expr(self, n):
        if isinstance(n, ast.Name):
            if n.id == self.me:
                return '.self'
            if n.id in self.vars:
                return '(.var %d)' % self.var(n.id)
            if n.id in FUNCS:
                return '(.global %s)' % lean_str(n.id)
            self.fail('unknown name %s' % n.id)
        if isinstance(n, ast.Constant):
            return '(.const %s)' % self.const(n)
        if isinstance(n, ast.Attribute):
            g = self._glob(n)
            if g:
                return '(.global %s)' % lean_str(g)
            root, path = _attr_chain(n)
            return '(.attrOf %s %s)' % (self.expr(root), _strs(path))
        if isinstance(n, ast.Tuple) and isinstance(n.ctx, ast.Load) and len(n.elts) == 2:
            return '(.pair %s %s)' % (self.expr(n.elts[0]), self.expr(n.elts[1]))
        if isinstance(n, ast.Tuple) and isinstance(n.ctx, ast.Load) and len(n.elts) == 1:
            return '(.tuple1 %s)' % self.expr(n.elts[0])
        if isinstance(n, ast.List) and not n.elts:
            return '.emptyList'
        if isinstance(n, ast.List) and len(n.elts) == 1 and not isinstance(n.elts[0], ast.Starred):
            return '(.tuple1 %s)' % self.expr(n.elts[0])
        if isinstance(n, ast.Dict) and not n.keys:
            return '.emptyDict'
        if isinstance(n, ast.BinOp) and isinstance(n.op, ast.Mod) and isinstance(n.left, ast.Constant) \
                and isinstance(n.left.value, str):
            return '(.pure "%%" [%s, %s] [] [])' % (self.expr(n.left), self.expr(n.right))
        if isinstance(n, ast.BoolOp) and isinstance(n.op, ast.Or):
            parts = [self.expr(v) for v in n.values]
            out = parts[-1]
            for p in reversed(parts[:-1]):
                out = '(.orE %s %s)' % (p, out)
            return out
        if isinstance(n, ast.Compare) and len(n.ops) == 1 and isinstance(n.ops[0], ast.Eq):
            return '(.eqE %s %s)' % (self.expr(n.left), self.expr(n.comparators[0]))
        if isinstance(n, ast.Subscript) and isinstance(n.ctx, ast.Load):
            s = n.slice
            if isinstance(s, ast.Slice):
                if s.upper is None and s.step is None and isinstance(s.lower, ast.Constant) \
                        and isinstance(s.lower.value, int) and s.lower.value >= 0:
                    return '(.dropE %s %d)' % (self.expr(n.value), s.lower.value)
                self.fail('slice outside the fragment', n)
            if isinstance(s, ast.Constant) and isinstance(s.value, int) and not isinstance(s.value, bool) \
                    and s.value >= 0 and self.kind(n.value) != 'dict':
                return '(.index %s %d)' % (self.expr(n.value), s.value)
            if isinstance(s, ast.BinOp) and isinstance(s.op, ast.Add) and isinstance(s.right, ast.Constant) \
                    and isinstance(s.right.value, int) and s.right.value >= 0:
                return '(.indexE %s (.addNat %s %d))' % (self.expr(n.value), self.expr(s.left), s.right.value)
            if self.kind(n.value) == 'dict' and not isinstance(s, ast.Tuple):
                return '(.subscript %s %s)' % (self.expr(n.value), self.expr(s))
            self.fail('subscript of something that is not known to be a dict / list', n)
        if isinstance(n, ast.Call) and not any(isinstance(a, ast.Starred) for a in n.args) \
                and not any(k.arg is None for k in n.keywords):
            f = n.func
            if isinstance(f, ast.Name) and not n.keywords:
                if f.id == 'list' and len(n.args) == 1:
                    return '(.listOf %s)' % self.expr(n.args[0])
                if f.id == 'str' and len(n.args) == 1:
                    return '(.strOf %s)' % self.expr(n.args[0])
                if f.id == 'len' and len(n.args) == 1:
                    return '(.len %s)' % self.expr(n.args[0])
                if f.id == 'getattr' and len(n.args) == 2:
                    return '(.getattr %s %s)' % (self.expr(n.args[0]), self.expr(n.args[1]))
                if f.id == 'reduce' and len(n.args) in (2, 3) and self._glob(n.args[0]) == 'sqlbuilder.AND':
                    init = '(some %s)' % self.expr(n.args[2]) if len(n.args) == 3 else 'none'
                    return '(.reduceAnd %s %s)' % (self.expr(n.args[1]), init)
            g = self._glob(f)
            if g == 'sqlbuilder.AND' and len(n.args) == 2 and not n.keywords:
                return '(.andE %s %s)' % (self.expr(n.args[0]), self.expr(n.args[1]))
            if g == 'sqlbuilder.IN' and len(n.args) == 2 and not n.keywords:
                return '(.inE %s %s)' % (self.expr(n.args[0]), self.expr(n.args[1]))
            if isinstance(f, ast.Attribute) and isinstance(f.value, ast.Name) and self.kinds.get(f.value.id) == 'dict' \
                    and not n.keywords:
                if f.attr == 'get' and len(n.args) in (1, 2):
                    d = self.expr(n.args[1]) if len(n.args) == 2 else '(.const .none)'
                    return '(.dictGet %s %s %s)' % (self.expr(f.value), self.expr(n.args[0]), d)
                if f.attr == 'copy' and not n.args:
                    return '(.copy %s)' % self.expr(f.value)
                if f.attr == 'items' and not n.args:
                    return '(.items %s)' % self.expr(f.value)
            self.fail('a call must be a statement of its own', n)
        self.fail('expression outside the fragment', n)

    def cond(self, n):
        if isinstance(n, ast.UnaryOp) and isinstance(n.op, ast.Not):
            return '(.not %s)' % self.cond(n.operand)
        if isinstance(n, ast.BoolOp):
            op = 'and' if isinstance(n.op, ast.And) else 'or'
            parts = [self.cond(v) for v in n.values]
            out = parts[-1]
            for p in reversed(parts[:-1]):
                out = '(.%s %s %s)' % (op, p, out)
            return out
        if isinstance(n, ast.Compare):
            if len(n.ops) != 1:
                self.fail('chained comparison', n)
            op, rhs = n.ops[0], n.comparators[0]
            if isinstance(op, ast.Is):
                if _is_none(rhs):
                    return '(.isNone %s)' % self.expr(n.left)
                return '(.is %s %s)' % (self.expr(n.left), self.expr(rhs))
            if isinstance(op, ast.IsNot):
                if _is_none(rhs):
                    return '(.isNotNone %s)' % self.expr(n.left)
                return '(.not (.is %s %s))' % (self.expr(n.left), self.expr(rhs))
            if isinstance(op, ast.Eq):
                return '(.eq %s %s)' % (self.expr(n.left), self.expr(rhs))
            if isinstance(op, ast.NotEq):
                return '(.ne %s %s)' % (self.expr(n.left), self.expr(rhs))
            if isinstance(op, (ast.In, ast.NotIn)):
                k = self.kind(rhs)
                if k == 'dict':
                    c = '(.inDict %s %s)' % (self.expr(n.left), self.expr(rhs))
                elif k in ('set', 'list'):
                    c = '(.inList %s %s)' % (self.expr(n.left), self.expr(rhs))
                else:
                    self.fail('membership in something that is not known to be a dict / set / list', n)
                return c if isinstance(op, ast.In) else '(.not %s)' % c
            self.fail('comparison outside the fragment', n)
        if isinstance(n, ast.Call) and isinstance(n.func, ast.Name) and n.func.id == 'isinstance' \
                and len(n.args) == 2 and not n.keywords:
            root, path = _attr_chain(n.args[1])
            if isinstance(root, ast.Name) and root.id not in self.vars:
                return '(.isinstance %s %s)' % (self.expr(n.args[0]), lean_str('.'.join([root.id] + path)))
        if isinstance(n, ast.Call) and isinstance(n.func, ast.Name) and n.func.id == 'hasattr' \
                and len(n.args) == 2 and not n.keywords:
            return '(.hasattr %s %s)' % (self.expr(n.args[0]), self.expr(n.args[1]))
        return '(.truthy %s)' % self.expr(n)

    # ---- statements ----------------------------------------------------------------------
    def _is_super(self, f):
        return (isinstance(f, ast.Attribute) and isinstance(f.value, ast.Call) and isinstance(f.value.func, ast.Name)
                and f.value.func.id == 'super')

    def call_stmt(self, target, c):
        """-> (statements that run first, the call statement) for an effectful call `[target =] c`"""
        f = c.func
        vstar = None
        pargs = list(c.args)
        if pargs and isinstance(pargs[-1], ast.Starred) and isinstance(pargs[-1].value, ast.Name):
            vstar = self.expr(pargs[-1].value)
            pargs = pargs[:-1]
        if any(isinstance(a, ast.Starred) for a in pargs):
            self.fail('call with * outside the fragment', c)
        stars = [k.value for k in c.keywords if k.arg is None]
        kws = [k for k in c.keywords if k.arg is not None]
        if len(stars) > 1 or (stars and c.keywords[-1].arg is not None):
            self.fail('** must be the last argument, once', c)
        star = 'none'
        if stars:
            if isinstance(stars[0], ast.Dict) and len(stars[0].keys) == 1 and stars[0].keys[0] is not None:
                # `**{k: v}`: the one-entry dict value
                star = '(some (.tuple1 (.pair %s %s)))' % (self.expr(stars[0].keys[0]), self.expr(stars[0].values[0]))
            elif not isinstance(stars[0], ast.Name):
                self.fail('** of something that is not a local', c)
            else:
                star = '(some %s)' % self.expr(stars[0])
        kwn = _strs([k.arg for k in kws])
        pre = []
        if self._is_super(f):
            sargs = f.value.args
            if f.value.keywords or [ast.unparse(a) for a in sargs] != [self.cls.name, self.me]:
                self.fail('super() of something else', c)
            if vstar:
                return pre, '(.superCallV %s %s %s %s %s %s %s)' % (target, lean_str(f.attr), self.exprs(pargs), vstar,
                                                                    kwn, self.exprs([k.value for k in kws]), star)
            return pre, '(.superCall %s %s %s %s %s %s)' % (target, lean_str(f.attr), self.exprs(c.args), kwn,
                                                            self.exprs([k.value for k in kws]), star)
        if isinstance(f, ast.Attribute) and not self._glob(f):
            recv = f.value
            if isinstance(recv, ast.Call) and not self.is_value_call(recv):
                pre, r = self.hoist(recv)
            else:
                r = self.expr(recv)
            if vstar:
                return pre, '(.callV %s %s %s %s %s %s %s %s)' % (target, r, lean_str(f.attr), self.exprs(pargs), vstar,
                                                                  kwn, self.exprs([k.value for k in kws]), star)
            return pre, '(.call %s %s %s %s %s %s %s)' % (target, r, lean_str(f.attr), self.exprs(c.args), kwn,
                                                          self.exprs([k.value for k in kws]), star)
        if vstar:
            self.fail('call with * outside the fragment', c)
        if self._glob(f) or (isinstance(f, ast.Name) and f.id in self.vars) or (
                isinstance(f, ast.Attribute) and isinstance(f.value, ast.Name)):
            return pre, '(.callFn %s %s %s %s %s %s)' % (target, self.expr(f), self.exprs(c.args), kwn,
                                                         self.exprs([k.value for k in kws]), star)
        self.fail('call outside the fragment', c)

    def hoist(self, n):
        """-> (statements that run first, pure expression) for `CALL` / `list(CALL)` / a pure expression"""
        if isinstance(n, ast.Call) and not self.is_value_call(n):
            t = self.temp()
            pre, st = self.call_stmt('(some %d)' % t, n)
            return pre + [st], '(.var %d)' % t
        if isinstance(n, ast.Call) and isinstance(n.func, ast.Name) and n.func.id == 'list' and len(n.args) == 1 \
                and not n.keywords and isinstance(n.args[0], ast.Call) and not self.is_value_call(n.args[0]):
            pre, e = self.hoist(n.args[0])
            return pre, '(.listOf %s)' % e
        return [], self.expr(n)

    def loop(self, body, orelse):
        idx = len(self.loops)
        self.loops.append(None)
        name = '%s_loop%d' % (self.lname, idx)
        self.loops[idx] = self.block(body)
        if orelse:
            self.elses[name] = self.block(orelse)
            return name, name + '_else'
        return name, '.nil'

    def _pure_msg(self, n):
        if isinstance(n, (ast.Constant, ast.Name)):
            return True
        if isinstance(n, ast.Attribute):
            return self._pure_msg(n.value)
        if isinstance(n, ast.BinOp) and isinstance(n.op, (ast.Mod, ast.Add)):
            return self._pure_msg(n.left) and self._pure_msg(n.right)
        if isinstance(n, ast.Tuple):
            return all(self._pure_msg(e) for e in n.elts)
        return False

    def _body_changes(self, body, name):
        for sub in body:
            for x in ast.walk(sub):
                if isinstance(x, ast.Name) and x.id == name and isinstance(x.ctx, (ast.Store, ast.Del)):
                    return True
                if isinstance(x, ast.Subscript) and isinstance(x.ctx, (ast.Store, ast.Del)) \
                        and isinstance(x.value, ast.Name) and x.value.id == name:
                    return True
                if isinstance(x, ast.Call) and isinstance(x.func, ast.Attribute) \
                        and isinstance(x.func.value, ast.Name) and x.func.value.id == name \
                        and x.func.attr not in ('items', 'get', 'copy'):
                    return True
        return False

    def _body_has_effects(self, body):
        for sub in body:
            for x in ast.walk(sub):
                if isinstance(x, ast.Call) and not self.is_value_call(x) and not (
                        isinstance(x.func, ast.Name) and x.func.id in EXC_CLS):
                    return True
                if isinstance(x, ast.Attribute) and isinstance(x.ctx, (ast.Store, ast.Del)):
                    return True
        return False

    def proc_call(self, target, c):
        """a call `f(arg)` of a nested function -> statement"""
        f = c.func
        if c.keywords or len(c.args) != 1:
            self.fail('call of a nested function outside the fragment', c)
        a = c.args[0]
        if isinstance(a, ast.Name) and a.id in self.vars:
            place = '(.pvar %d)' % self.var(a.id)
        elif isinstance(a, ast.Attribute) and isinstance(a.value, ast.Name) and a.value.id in self.vars:
            place = '(.pattr %d %s)' % (self.var(a.value.id), _strs([a.attr]))
        else:
            self.fail('argument of a nested function must be a local or an attribute of a local', c)
        caps = '[' + ', '.join('(.var %d)' % self.var(v) for v in self.all_caps()) + ']'
        return '(.procCall %s %s %s %s)' % (target, lean_str(f.id), place, caps)

    def all_caps(self):
        return self.caps

    def is_nested_call(self, v):
        return isinstance(v, ast.Call) and isinstance(v.func, ast.Name) and v.func.id in self.all_nested()

    def all_nested(self):
        return self.nested

    def stmt(self, n):
        """-> list of translated statements"""
        if isinstance(n, ast.Pass):
            return ['.pass']
        if isinstance(n, ast.FunctionDef) and n.name in self.nested and self.nested[n.name] is n:
            return []
        if isinstance(n, ast.Expr) and self.is_nested_call(n.value):
            return [self.proc_call('none', n.value)]
        if isinstance(n, ast.Assign) and len(n.targets) == 1 and isinstance(n.targets[0], ast.Name) \
                and self.is_nested_call(n.value):
            return [self.proc_call('(some %d)' % self.var(n.targets[0].id), n.value)]
        if isinstance(n, ast.Assign) and len(n.targets) == 1 and isinstance(n.targets[0], ast.Name) \
                and isinstance(n.value, ast.Call) and isinstance(n.value.func, ast.Attribute) \
                and n.value.func.attr == 'pop' and isinstance(n.value.func.value, ast.Name) \
                and self.kinds.get(n.value.func.value.id) == 'dict' and len(n.value.args) == 2 and not n.value.keywords:
            return ['(.dictPop %d %d %s %s)' % (self.var(n.targets[0].id), self.var(n.value.func.value.id),
                                              self.expr(n.value.args[0]), self.expr(n.value.args[1]))]
        if isinstance(n, ast.Assign) and len(n.targets) == 1 and isinstance(n.targets[0], ast.Attribute) \
                and isinstance(n.targets[0].value, ast.Name) and n.targets[0].value.id in self.inout_params():
            t = n.targets[0]
            return ['(.setAttrVar %d %s %s)' % (self.var(t.value.id), _strs([t.attr]), self.expr(n.value))]
        if isinstance(n, ast.Continue):
            return ['.continue']
        if isinstance(n, ast.Break):
            return ['.break']
        if isinstance(n, ast.Return):
            if n.value is None or _is_none(n.value):
                return ['.retNone']
            pre, e = self.hoist(n.value)
            return pre + ['(.ret %s)' % e]
        if isinstance(n, ast.Raise):
            if n.exc is None and n.cause is None:
                return ['.reraise']
            if n.cause is None and isinstance(n.exc, ast.Name) and n.exc.id in EXC_CLS:
                return ['(.raise %s)' % EXC_CLS[n.exc.id]]
            if n.cause is None and isinstance(n.exc, ast.Call) and isinstance(n.exc.func, ast.Name) \
                    and n.exc.func.id in EXC_CLS and not n.exc.keywords and all(self._pure_msg(a) for a in n.exc.args):
                return ['(.raise %s)' % EXC_CLS[n.exc.func.id]]
            self.fail('raise outside the fragment', n)
        if isinstance(n, ast.If):
            return ['(.ite %s %s %s)' % (self.cond(n.test), self.block(n.body), self.block(n.orelse))]
        if isinstance(n, ast.Assign) and len(n.targets) == 2:
            # `ids = d[k] = []`  ==  ids = []; d[k] = ids   (the list is then owned by the dict entry: the
            # translator only accepts it when `ids` is not used after the statement that follows)
            self.fail('chained assignment', n)
        if isinstance(n, ast.Assign) and len(n.targets) == 1:
            t, v = n.targets[0], n.value
            if isinstance(t, ast.Name):
                if isinstance(v, ast.Call) and not self.is_value_call(v):
                    pre, st = self.call_stmt('(some %d)' % self.var(t.id), v)
                    return pre + [st]
                pre, e = self.hoist(v)
                return pre + ['(.assign %d %s)' % (self.var(t.id), e)]
            if isinstance(t, ast.Attribute):
                root, path = _attr_chain(t)
                if not (isinstance(root, ast.Name) and (root.id == self.me or root.id in self.vars)):
                    self.fail('attribute assignment outside the fragment', n)
                pre, e = self.hoist(v)
                return pre + ['(.setAttr %s %s %s)' % (self.expr(root), _strs(path), e)]
            if isinstance(t, ast.Subscript) and not isinstance(t.slice, (ast.Slice, ast.Tuple)):
                if isinstance(t.value, ast.Name) and self.kinds.get(t.value.id) == 'dict':
                    return ['(.setItem %d %s %s)' % (self.var(t.value.id), self.expr(t.slice), self.expr(v))]
                p = self.is_self_attr(t.value)
                if p and self.attr_kind(p) == 'dict':
                    return ['(.attrSetItem .self %s %s %s)' % (_strs(p), self.expr(t.slice), self.expr(v))]
                self.fail('item assignment to something that is not known to be a dict', n)
        if isinstance(n, ast.Delete) and len(n.targets) == 1 and isinstance(n.targets[0], ast.Subscript):
            t = n.targets[0]
            if isinstance(t.slice, (ast.Slice, ast.Tuple)):
                self.fail('del of a slice', n)
            if isinstance(t.value, ast.Name) and self.kinds.get(t.value.id) == 'dict':
                return ['(.delItem %d %s)' % (self.var(t.value.id), self.expr(t.slice))]
            p = self.is_self_attr(t.value)
            if p and self.attr_kind(p) == 'dict':
                return ['(.attrDelItem .self %s %s)' % (_strs(p), self.expr(t.slice))]
            if p and self.attr_kind(p) == 'list' and isinstance(t.slice, ast.Constant) \
                    and isinstance(t.slice.value, int) and t.slice.value >= 0:
                return ['(.attrDelIdx .self %s %d)' % (_strs(p), t.slice.value)]
            self.fail('del of an item of something that is not known to be a dict / list', n)
        if isinstance(n, ast.Expr) and isinstance(n.value, ast.Call) and _upd_comp(n.value):
            x, k, v, a, b, it, cnd = _upd_comp(n.value)
            if self.kinds.get(x) != 'dict':
                self.fail('update of something that is not known to be a dict', n)
            if isinstance(it, ast.Call) and isinstance(it.func, ast.Attribute) and it.func.attr == 'items' \
                    and not it.args and not it.keywords:
                ite = '(.items %s)' % self.expr(it.func.value)
            else:
                ite = self.expr(it)
            return ['(.updatePairs %d %d %d %s %s %s %s)' % (self.var(x), self.var(a), self.var(b), ite,
                                                           self.cond(cnd), self.expr(k), self.expr(v))]
        if isinstance(n, ast.Expr) and isinstance(n.value, ast.Call):
            c, f = n.value, n.value.func
            if isinstance(f, ast.Attribute) and isinstance(f.value, ast.Name) and f.value.id in self.vars \
                    and f.attr in ('add', 'update', 'append') and len(c.args) == 1 and not c.keywords:
                k = self.kinds.get(f.value.id)
                pre, e = self.hoist(c.args[0])
                x = self.var(f.value.id)
                if f.attr == 'add' and k == 'set':
                    return pre + ['(.setAdd %d %s)' % (x, e)]
                if f.attr == 'update' and k == 'set':
                    return pre + ['(.setUpdate %d %s)' % (x, e)]
                if f.attr == 'append' and k == 'list':
                    return pre + ['(.append %d %s)' % (x, e)]
            if isinstance(f, ast.Attribute) and isinstance(f.value, ast.Name) and f.value.id in self.vars \
                    and f.attr in ('append', 'extend', 'update', 'pop', 'clear', 'remove', 'insert', 'setdefault',
                                   'sort', 'reverse', 'popitem', 'add', 'discard'):
                self.fail('mutation of a container outside the fragment', n)
            if self.is_value_call(c):
                self.fail('pure call used as a statement', n)
            pre, st = self.call_stmt('none', c)
            return pre + [st]
        if isinstance(n, ast.For):
            it, t = n.iter, n.target
            pre = []
            if isinstance(it, ast.Name):
                if self._body_changes(n.body, it.id):
                    self.fail('loop over %s changes it' % it.id)
                ite = '(.keys %s)' % self.expr(it) if self.kinds.get(it.id) == 'dict' else self.expr(it)
            elif isinstance(it, ast.Call) and isinstance(it.func, ast.Attribute) and it.func.attr == 'items' \
                    and isinstance(it.func.value, ast.Name) and self.kinds.get(it.func.value.id) == 'dict':
                if self._body_changes(n.body, it.func.value.id):
                    self.fail('loop over %s.items() changes it' % it.func.value.id)
                ite = self.expr(it)
            elif isinstance(it, ast.Call) and not self.is_value_call(it):
                pre, ite = self.hoist(it)
            elif isinstance(it, ast.Call) and isinstance(it.func, ast.Name) and it.func.id == 'list':
                pre, ite = self.hoist(it)
            elif isinstance(it, ast.Attribute):
                p = self.is_self_attr(it)
                if p is None and self._body_has_effects(n.body):
                    self.fail('loop over an attribute whose body calls something', n)
                if p is not None:
                    for sub in n.body:
                        for x in ast.walk(sub):
                            if isinstance(x, ast.Attribute) and self.is_self_attr(x) == p \
                                    and isinstance(x.ctx, (ast.Store, ast.Del)):
                                self.fail('loop over self.%s changes it' % p[0])
                            if isinstance(x, (ast.Subscript,)) and isinstance(x.ctx, (ast.Store, ast.Del)) \
                                    and self.is_self_attr(x.value) == p:
                                self.fail('loop over self.%s changes it' % p[0])
                ite = self.expr(it)
            else:
                self.fail('loop over something outside the fragment', n)
            body, orelse = self.loop(n.body, n.orelse)
            if isinstance(t, ast.Name):
                return pre + ['(.for1 %d %s %s %s)' % (self.var(t.id), ite, body, orelse)]
            if isinstance(t, ast.Tuple) and len(t.elts) == 2 and t.elts[0].id != t.elts[1].id:
                return pre + ['(.for2 %d %d %s %s %s)' % (self.var(t.elts[0].id), self.var(t.elts[1].id), ite, body,
                                                         orelse)]
        if isinstance(n, ast.While):
            c = self.cond(n.test)
            body, orelse = self.loop(n.body, n.orelse)
            self.conds[body] = c
            return ['(.while %s_cond %s %s)' % (body, body, orelse)]
        if isinstance(n, ast.Try) and not n.finalbody and len(n.handlers) == 1:
            h = n.handlers[0]
            if not isinstance(h.type, ast.Name) or h.type.id not in EXC_PAT or h.name:
                self.fail('only one `except <known class>:` is in the fragment', n)
            return ['(.tryExcept %s %s %s %s)' % (self.block(n.body), EXC_PAT[h.type.id], self.block(h.body),
                                                  self.block(n.orelse))]
        self.fail('statement outside the fragment', n)

    def inout_params(self):
        return []

    def _dict_append_idiom(self, stmts, i):
        """`x = D.get(K)` / `if x is None: x = D[K] = []` / `x.append(V)`  (x used nowhere else in the function):
        the list is the dict's entry all along -> `D[K] = D.get(K, []) + [V]`"""
        if i + 2 >= len(stmts):
            return None
        s1, s2, s3 = stmts[i], stmts[i + 1], stmts[i + 2]
        if not (isinstance(s1, ast.Assign) and len(s1.targets) == 1 and isinstance(s1.targets[0], ast.Name)
                and isinstance(s1.value, ast.Call) and isinstance(s1.value.func, ast.Attribute)
                and s1.value.func.attr == 'get' and isinstance(s1.value.func.value, ast.Name)
                and len(s1.value.args) == 1 and not s1.value.keywords):
            return None
        x, d, k = s1.targets[0].id, s1.value.func.value.id, s1.value.args[0]
        if self.kinds.get(d) != 'dict':
            return None
        if not (isinstance(s2, ast.If) and not s2.orelse and len(s2.body) == 1
                and ast.unparse(s2.test) == '%s is None' % x
                and isinstance(s2.body[0], ast.Assign) and len(s2.body[0].targets) == 2
                and ast.unparse(s2.body[0].targets[0]) == x
                and ast.unparse(s2.body[0].targets[1]) == '%s[%s]' % (d, ast.unparse(k))
                and isinstance(s2.body[0].value, ast.List) and not s2.body[0].value.elts):
            return None
        if not (isinstance(s3, ast.Expr) and isinstance(s3.value, ast.Call) and isinstance(s3.value.func, ast.Attribute)
                and s3.value.func.attr == 'append' and ast.unparse(s3.value.func.value) == x
                and len(s3.value.args) == 1 and not s3.value.keywords):
            return None
        if not isinstance(k, ast.Name):
            return None
        uses = [n for n in ast.walk(self.fn) if isinstance(n, ast.Name) and n.id == x]
        before = [n for n in uses if n.lineno < s1.lineno]
        after = sorted([n for n in uses if n.lineno > s3.end_lineno], key=lambda n: (n.lineno, n.col_offset))
        inside = [n for n in uses if s1.lineno <= n.lineno <= s3.end_lineno]
        # the four occurrences of the idiom itself; afterwards the name is re-bound before it is read again (and the
        # idiom is not inside a loop whose later iterations could see ... it is re-bound by `x = D.get(K)` each time)
        if before or len(inside) != 4 or (after and not isinstance(after[0].ctx, ast.Store)):
            return None
        return '(.dictAppend %d %s %s)' % (self.var(d), self.expr(k), self.expr(s3.value.args[0]))

    def block(self, stmts):
        parts = []
        i = 0
        while i < len(stmts):
            idi = self._dict_append_idiom(stmts, i)
            if idi:
                parts.append(idi)
                i += 3
                continue
            parts += self.stmt(stmts[i])
            i += 1
        return self._fold(parts)

    def _fold(self, parts):
        out = '.nil'
        for p in reversed(parts):
            out = '(.cons %s\n    %s)' % (p, out)
        return out

    def _block_old(self, stmts):
        parts = []
        for s in stmts:
            parts += self.stmt(s)
        out = '.nil'
        for p in reversed(parts):
            out = '(.cons %s\n    %s)' % (p, out)
        return out


class NestedFunc(Func):
    """a nested function `def f(p): …`: parameters `p`, then the captured locals of the enclosing function"""
    allow_nested = False

    def __init__(self, outer, fn):
        self.cls = outer.cls
        self.fn = fn
        self.outer = outer
        self.name = outer.name + '.' + fn.name
        self.lname = '%s_%s' % (outer.lname, fn.name.strip('_'))
        self.me = None
        self.params = [fn.args.args[0].arg] + list(outer.caps)
        self.kwparam = None
        self.vars = list(self.params)
        self.kinds = {}
        self.loops = []
        self.conds = {}
        self.elses = {}
        self.nested = {}
        self.caps = []
        self.procs = []
        body = strip_doc(fn.body)
        self._collect(body)
        self.defaults = []
        self.body = self.block(body)
        if self.loops:
            self.fail('loop in a nested function')

    def all_caps(self):
        return self.outer.caps

    def all_nested(self):
        return self.outer.nested

    def inout_params(self):
        return [self.params[0]]


ENABLED = ['selInit', 'select', 'selectBy', 'findAlternateID', 'iterNext', 'fetchChildren']


def translate(repo):
    trees = {}
    out = []
    for rel, cname, fname, lname in TARGETS:
        if lname not in ENABLED:
            continue
        if rel not in trees:
            trees[rel] = parse(repo, rel)
        cls = find_class(trees[rel], cname)
        out.append((cls, fname, Func(cls, find_func(cls, fname), lname)))
    return out


def extract(repo):
    lines = [HEADER % 'pyinhsel', 'import SqlObjVerif.Model.PyInhSel', '',
             'namespace SqlObjVerif.PyIS.Extracted', 'open SqlObjVerif.PyIS', '']
    for cls, name, m in translate(repo):
        ln = m.lname
        for i in reversed(range(len(m.loops))):
            lp = '%s_loop%d' % (ln, i)
            lines += ['/-- body of loop %d of `%s.%s` -/' % (i, cls.name, name),
                      'def %s : Block :=\n  %s' % (lp, m.loops[i]), '']
            if lp in m.conds:
                lines += ['/-- condition of that `while` loop -/', 'def %s_cond : Cond :=\n  %s' % (lp, m.conds[lp]), '']
            if lp in m.elses:
                lines += ['/-- `else` of that loop -/', 'def %s_else : Block :=\n  %s' % (lp, m.elses[lp]), '']
        for pname, pf in m.procs:
            lines += ['/-- nested function `%s` of `%s.%s`, translated; locals: %s -/'
                      % (pname, cls.name, name, ', '.join('%s=%d' % (v, i) for i, v in enumerate(pf.vars))),
                      'def %s : Block :=\n  %s' % (pf.lname, pf.body), '']
        if m.procs:
            lines += ['/-- the nested functions of `%s.%s` by name -/' % (cls.name, name),
                      'def %s_procs : List (String × Block) := [%s]'
                      % (ln, ', '.join('(%s, %s)' % (lean_str(pn), pf.lname) for pn, pf in m.procs)), '']
        lines += ['/-- `%s.%s(%s)`, translated; locals: %s -/'
                  % (cls.name, name, ', '.join([m.me] + m.params),
                     ', '.join('%s=%d' % (v, i) for i, v in enumerate(m.vars)) or '-'),
                  'def %sProg : Block :=\n  %s' % (ln, m.body),
                  'def %s_nargs : Nat := %d' % (ln, len(m.params)),
                  'def %s_defaults : List Expr := [%s]' % (ln, ', '.join(m.defaults)), '']
    lines.append('end SqlObjVerif.PyIS.Extracted')
    return '\n'.join(lines) + '\n'
