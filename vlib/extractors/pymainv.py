"""TRANSLATOR (re-targeted): the value-level instance methods of `SQLObject` (sqlobject/main.py) -> PyMainV blocks.

Runs the translator of `pymain.py` UNCHANGED (`expire`, `syncUpdate`, `sync`, `_SO_loadValue`, `_SO_getValue`,
`_SO_selectInit`, `_SO_setValue`, `set`; every convention and every ExtractError of that module applies) and
re-targets its output at the embedding `lean/SqlObjVerif/Model/PyMainV.lean` — the same vocabulary over C01's value
universe `Codec.PyVal` with raising validators: the translated terms are the same, only the namespace differs.
"""
from . import ExtractError, HEADER
from . import pymain

TARGET = 'PyMainV'


def extract(repo):
    src = pymain.extract(repo)
    head = HEADER % 'pymain'
    if not src.startswith(head):
        raise ExtractError('pymainv: unexpected header of the pymain translation')
    body = src[len(head):]
    for needle in ('import SqlObjVerif.Model.PyMain\n', 'namespace SqlObjVerif.PyMain.Extracted\n',
                   'open SqlObjVerif.PyMain\n', 'end SqlObjVerif.PyMain.Extracted'):
        if body.count(needle) != 1:
            raise ExtractError('pymainv: %r occurs %d times in the pymain translation' % (needle, body.count(needle)))
    body = body.replace('import SqlObjVerif.Model.PyMain\n', 'import SqlObjVerif.Model.PyMainV\n')
    body = body.replace('namespace SqlObjVerif.PyMain.Extracted\n', 'namespace SqlObjVerif.PyMainV.Extracted\n')
    body = body.replace('open SqlObjVerif.PyMain\n', 'open SqlObjVerif.PyMainV\n')
    body = body.replace('end SqlObjVerif.PyMain.Extracted', 'end SqlObjVerif.PyMainV.Extracted')
    if 'SqlObjVerif.PyMain.' in body or 'SqlObjVerif.PyMain\n' in body:
        raise ExtractError('pymainv: a reference to the PyMain namespace is left')
    return (HEADER % 'pymainv') + body
