"""Import sqlobject from /repo's working tree and give the harnesses small helpers."""
import os
import sys

REPO = os.environ.get('VERIF_REPO', '/repo')
_done = False
_counter = [0]


def setup():
    global _done
    if _done:
        return
    os.environ.setdefault('SQLOBJECT_VERIF', '1')
    if sys.path[0] != REPO:
        sys.path.insert(0, REPO)
    import sqlobject
    assert os.path.abspath(sqlobject.__file__).startswith(os.path.abspath(REPO) + os.sep), \
        'sqlobject imported from %s, not from %s' % (sqlobject.__file__, REPO)
    _done = True


def mem_conn(**kw):
    """a fresh private in-memory SQLite connection (not registered in the URI cache)"""
    setup()
    from sqlobject.sqlite.sqliteconnection import SQLiteConnection
    return SQLiteConnection(':memory:', **kw)


def file_conn(path, **kw):
    setup()
    from sqlobject.sqlite.sqliteconnection import SQLiteConnection
    return SQLiteConnection(path, **kw)


def uniq(prefix):
    """class names must be unique per registry; harnesses create classes dynamically"""
    _counter[0] += 1
    return '%s%d' % (prefix, _counter[0])


def exc_name(e):
    """map exceptions to the small enum the models use"""
    setup()
    import sqlobject
    from sqlobject import dberrors
    from formencode import Invalid
    n = type(e).__name__
    if isinstance(e, sqlobject.SQLObjectNotFound):
        return 'NotFound'
    if isinstance(e, sqlobject.main.SQLObjectIntegrityError):
        return 'Integrity'
    if isinstance(e, dberrors.DuplicateEntryError):
        return 'Duplicate'
    if isinstance(e, dberrors.IntegrityError):
        return 'DbIntegrity'
    if isinstance(e, Invalid):
        return 'Invalid'
    if isinstance(e, IndexError):
        return 'IndexError'
    if isinstance(e, AssertionError):
        return 'Assert'
    if isinstance(e, dberrors.OperationalError):
        return 'Operational'
    return 'Other(%s)' % n
