"""Check framework: extract -> build -> audit -> corpus/correspondence/oracle (harness) -> verdict.

See DESIGN.md section 2.1.  One instance of `Ctx` per `./check Cnn` run.
Exit codes: 0 property held on everything explored; 1 VIOLATION printed; 2 machinery failure
(no verdict).
"""
import fcntl
import hashlib
import importlib
import json
import os
import re
import subprocess
import sys
import time
import traceback

VERIF = os.path.dirname(os.path.dirname(os.path.abspath(__file__)))
REPO = os.environ.get('VERIF_REPO', '/repo')
LEAN = os.path.join(VERIF, 'lean')
GUARD = 'SQLOBJECT_VERIF'
ALLOWED_AXIOMS = {'propext', 'Classical.choice', 'Quot.sound'}
FORBIDDEN = re.compile(r'\bsorry\b|\badmit\b|^\s*axiom\s|native_decide|bv_decide|implemented_by|'
                       r'\bunsafe\s|maxHeartbeats\s+0\b|\bextern\b', re.M)

BASE_TRUSTED = [
    'Lean 4.33.0 kernel (axioms allowed: propext, Classical.choice, Quot.sound; audited by #print axioms every run)',
    'vlib/extractors/*.py (AST readers that regenerate lean/SqlObjVerif/Extracted/*.lean from /repo)',
    'the harness (generator, canonicalisers, diff) and the Lean line-protocol driver',
    'the correspondence is sampling: model and code may differ on an input never generated',
]


def prng(seed):
    """splitmix64 stream as a random.Random-compatible object (all random choices derive from it)."""
    import random

    class SplitMix(random.Random):
        def __init__(self, s):
            self._s = s & 0xFFFFFFFFFFFFFFFF
            super().__init__(0)

        def _next(self):
            self._s = (self._s + 0x9E3779B97F4A7C15) & 0xFFFFFFFFFFFFFFFF
            z = self._s
            z = ((z ^ (z >> 30)) * 0xBF58476D1CE4E5B9) & 0xFFFFFFFFFFFFFFFF
            z = ((z ^ (z >> 27)) * 0x94D049BB133111EB) & 0xFFFFFFFFFFFFFFFF
            return z ^ (z >> 31)

        def random(self):
            return (self._next() >> 11) / float(1 << 53)

        def getrandbits(self, k):
            out = 0
            n = 0
            while n < k:
                out |= self._next() << n
                n += 64
            return out & ((1 << k) - 1)

        def seed(self, *a, **k):
            pass

        def getstate(self):
            return self._s

        def setstate(self, s):
            self._s = s
    return SplitMix(seed)


def strip_comments(src):
    """remove Lean block and line comments (nesting handled) for the grep audit"""
    out = []
    i = 0
    depth = 0
    n = len(src)
    while i < n:
        if src.startswith('/-', i):
            depth += 1
            i += 2
        elif depth and src.startswith('-/', i):
            depth -= 1
            i += 2
        elif depth:
            if src[i] == '\n':
                out.append('\n')
            i += 1
        elif src.startswith('--', i):
            while i < n and src[i] != '\n':
                i += 1
        elif src[i] == '"':
            j = i + 1
            while j < n and src[j] != '"':
                j += 2 if src[j] == '\\' else 1
            out.append('""')
            i = j + 1
        else:
            out.append(src[i])
            i += 1
    return ''.join(out)


def lean_theorems(path):
    """fully qualified names of the theorems declared in a Lean file, with their statements."""
    src = open(path, encoding='utf-8').read()
    clean = strip_comments(src)
    ns = []
    out = []
    lines = clean.split('\n')
    for idx, line in enumerate(lines):
        m = re.match(r'\s*namespace\s+(\S+)', line)
        if m:
            ns.append(m.group(1))
            continue
        m = re.match(r'\s*end\s+(\S+)\s*$', line)
        if m and ns and ns[-1] == m.group(1):
            ns.pop()
            continue
        m = re.match(r'\s*(?:@\[[^\]]*\]\s*)?(?:private\s+|protected\s+)?theorem\s+([^\s:({\[]+)', line)
        if m:
            stmt = []
            for l2 in lines[idx:idx + 40]:
                stmt.append(l2.strip())
                if ':=' in l2:
                    break
            text = ' '.join(stmt)
            text = text.split(':=')[0].strip()
            out.append({'name': '.'.join(ns + [m.group(1)]), 'line': idx + 1, 'statement': text})
    return out


def module_closure(mod):
    """SqlObjVerif.* modules transitively imported by `mod` (paths relative to LEAN)."""
    seen = []
    todo = [mod]
    while todo:
        m = todo.pop()
        if m in seen:
            continue
        path = os.path.join(LEAN, *m.split('.')) + '.lean'
        if not os.path.exists(path):
            continue
        seen.append(m)
        for line in open(path, encoding='utf-8'):
            mm = re.match(r'\s*import\s+(SqlObjVerif\.\S+)', line)
            if mm:
                todo.append(mm.group(1))
    return seen


class Ctx:
    def __init__(self, prop, tier, seed, harness):
        self.prop = prop
        self.tier = tier
        self.seed = seed
        self.harness = harness
        self.meta = getattr(harness, 'META', {})
        self.rng = prng(seed * 1000003 + int(prop[1:]))
        self.t0 = time.time()
        self.deep = False
        # results
        self.extract_errors = []
        self.build_ok = None
        self.build_log = ''
        self.broken_theorems = []
        self.audit_ok = None
        self.audit_problems = []
        self.theorems = []
        self.driver_ok = None
        self.mismatches = []       # correspondence diffs
        self.oracle_fails = []     # property failures on the implementation
        self._fail_counts = {}
        self.streams = {}          # name -> {'cases': n, 'diffs': n}
        self.evaluations = 0
        self.keys = set()
        self.samples = []
        self.dist = {}
        self.notes = []
        self.known_replayed = []
        self.harness_crash = None
        self._drv = None

    # ------------------------------------------------------------------ budget
    def budget(self, quick, thorough):
        n = thorough if self.tier == 'thorough' else quick
        if self.deep and self.tier != 'thorough':
            n = max(n, (quick + thorough) // 4)
        return n

    # ------------------------------------------------------------------ lean side
    def lake(self, args, timeout=3000):
        os.makedirs(os.path.join(LEAN, '.lake'), exist_ok=True)
        with open(os.path.join(LEAN, '.lake', 'verif.lock'), 'w') as lk:
            fcntl.flock(lk, fcntl.LOCK_EX)
            try:
                p = subprocess.run(['lake'] + args, cwd=LEAN, stdout=subprocess.PIPE,
                                   stderr=subprocess.STDOUT, text=True, timeout=timeout)
                return p.returncode, p.stdout
            finally:
                fcntl.flock(lk, fcntl.LOCK_UN)

    def extract(self):
        names = self.meta.get('extractors', [])
        for name in names:
            try:
                mod = importlib.import_module('vlib.extractors.' + name)
                text = mod.extract(REPO)
            except Exception as e:  # ExtractError or anything the AST shape change provokes
                self.extract_errors.append('%s: %s: %s' % (name, type(e).__name__, e))
                continue
            path = os.path.join(LEAN, 'SqlObjVerif', 'Extracted', mod.TARGET + '.lean')
            old = open(path, encoding='utf-8').read() if os.path.exists(path) else None
            if old != text:
                # serialise with builds
                with open(os.path.join(LEAN, '.lake', 'verif.lock'), 'w') as lk:
                    fcntl.flock(lk, fcntl.LOCK_EX)
                    with open(path, 'w', encoding='utf-8') as f:
                        f.write(text)
                    fcntl.flock(lk, fcntl.LOCK_UN)
        return not self.extract_errors

    def props_module(self):
        return 'SqlObjVerif.Props.' + self.prop

    def props_path(self):
        return os.path.join(LEAN, 'SqlObjVerif', 'Props', self.prop + '.lean')

    def build(self):
        self.theorems = lean_theorems(self.props_path())
        rc, out = self.lake(['build', self.props_module()])
        self.build_ok = (rc == 0)
        self.build_log = out[-6000:]
        if rc != 0:
            # map error positions to the enclosing declaration
            broken = []
            for m in re.finditer(r'error: (\S+\.lean):(\d+):(\d+):', out):
                f, line = m.group(1), int(m.group(2))
                path = os.path.join(LEAN, f)
                decl = None
                try:
                    src = open(path, encoding='utf-8').read().split('\n')
                    for k in range(min(line, len(src)) - 1, -1, -1):
                        mm = re.match(r'\s*(?:@\[[^\]]*\]\s*)?(?:private\s+)?(theorem|def|example|instance|lemma|abbrev)\s*([^\s:({\[]*)', src[k])
                        if mm:
                            decl = '%s %s' % (mm.group(1), mm.group(2))
                            break
                except OSError:
                    pass
                item = '%s:%d (%s)' % (f, line, decl)
                if item not in broken:
                    broken.append(item)
            self.broken_theorems = broken or ['(no position parsed; see build log)']
        drv = 'drv_' + self.prop.lower()
        rc2, out2 = self.lake(['build', drv])
        self.driver_ok = (rc2 == 0)
        if rc2 != 0:
            self.build_log += '\n--- driver ---\n' + out2[-3000:]
        self._drv = os.path.join(LEAN, '.lake', 'build', 'bin', drv)
        return self.build_ok

    def audit(self):
        """grep audit over the closure of the property module + #print axioms of every theorem."""
        problems = []
        mods = module_closure(self.props_module())
        for m in mods:
            path = os.path.join(LEAN, *m.split('.')) + '.lean'
            clean = strip_comments(open(path, encoding='utf-8').read())
            for mm in FORBIDDEN.finditer(clean):
                problems.append('%s: forbidden token %r' % (m, mm.group(0).strip()))
        if not self.theorems:
            problems.append('no theorem declared in %s' % self.props_path())
        if self.build_ok:
            adir = os.path.join(LEAN, '.lake', 'audit')
            os.makedirs(adir, exist_ok=True)
            apath = os.path.join(adir, self.prop + '.lean')
            with open(apath, 'w', encoding='utf-8') as f:
                f.write('import %s\n' % self.props_module())
                for t in self.theorems:
                    f.write('#print axioms %s\n' % t['name'])
            rc, out = self.lake(['env', 'lean', apath])
            flat = ' '.join(out.split())
            found = {}
            for mm in re.finditer(r"'([^']+)' (depends on axioms: \[([^\]]*)\]|does not depend on any axioms)", flat):
                axs = [a.strip() for a in (mm.group(3) or '').split(',') if a.strip()]
                found[mm.group(1)] = axs
            for t in self.theorems:
                if t['name'] not in found:
                    problems.append('no #print axioms output for %s (rc=%s): %s' % (t['name'], rc, out[-300:]))
                    continue
                t['axioms'] = found[t['name']]
                bad = [a for a in found[t['name']] if a not in ALLOWED_AXIOMS]
                if bad:
                    problems.append('%s depends on %s' % (t['name'], bad))
        self.audit_problems = problems
        self.audit_ok = not problems
        return self.audit_ok

    def leanchecker(self):
        mods = module_closure(self.props_module())
        rc, out = self.lake(['env', 'leanchecker'] + mods, timeout=3000)
        return rc == 0, out[-2000:]

    def model(self, lines):
        """pipe request lines to the compiled model driver; None when the driver is unavailable."""
        if not self.driver_ok:
            return None
        if not lines:
            return []
        data = '\n'.join(lines) + '\n'
        try:
            p = subprocess.run([self._drv], input=data, stdout=subprocess.PIPE, stderr=subprocess.PIPE,
                               text=True, timeout=1800)
        except Exception as e:
            self.notes.append('driver failed: %r' % (e,))
            self.driver_ok = False
            return None
        outs = p.stdout.split('\n')
        if outs and outs[-1] == '':
            outs.pop()
        if p.returncode != 0 or len(outs) != len(lines):
            self.notes.append('driver returned %d answers for %d requests (rc=%d): %s'
                              % (len(outs), len(lines), p.returncode, p.stderr[-500:]))
            self.driver_ok = False
            return None
        return outs

    # ------------------------------------------------------------------ recording
    def case(self, key, nontrivial=True, sample=None, kind=None):
        self.evaluations += 1
        if nontrivial:
            h = hashlib.blake2b(repr(key).encode('utf-8', 'surrogatepass'), digest_size=8).digest()
            self.keys.add(h)
        if kind is not None:
            self.dist[kind] = self.dist.get(kind, 0) + 1
        if sample is not None and len(self.samples) < 12 and \
                (len(self.samples) < 4 or self.evaluations % 97 == 0):
            self.samples.append(sample)

    def count(self, kind, n=1):
        self.dist[kind] = self.dist.get(kind, 0) + n

    def stream(self, name, ok=True):
        s = self.streams.setdefault(name, {'cases': 0, 'diffs': 0})
        s['cases'] += 1
        if not ok:
            s['diffs'] += 1

    def mismatch(self, stream, case, model_out, impl_out):
        self.stream(stream, ok=False)
        if len(self.mismatches) < 50:
            self.mismatches.append({'stream': stream, 'case': case, 'model': model_out, 'impl': impl_out})

    def compare(self, stream, case, model_out, impl_out):
        """record one correspondence comparison; returns True when equal (or model unavailable)."""
        if model_out is None:
            return True
        if model_out == impl_out:
            self.stream(stream, ok=True)
            return True
        self.mismatch(stream, case, model_out, impl_out)
        return False

    def oracle_fail(self, key, what, case):
        # keep a few failures per key (so that many replays of one known finding cannot crowd out
        # a different failure) and a generous overall bound
        n = self._fail_counts.get(key, 0)
        self._fail_counts[key] = n + 1
        if n < 3 and len(self.oracle_fails) < 600:
            self.oracle_fails.append({'key': key, 'what': what, 'case': case})

    def note(self, s):
        if s not in self.notes:
            self.notes.append(s)


def load_known():
    path = os.path.join(VERIF, 'known_findings.json')
    if not os.path.exists(path):
        return []
    return json.load(open(path))['findings']


def write_replay(ctx, kind, payload):
    d = os.path.join(VERIF, 'replays', ctx.prop)
    os.makedirs(d, exist_ok=True)
    n = 0
    while os.path.exists(os.path.join(d, '%s-%03d.json' % (kind, n))):
        n += 1
    path = os.path.join(d, '%s-%03d.json' % (kind, n))
    payload = dict(payload)
    payload.update({'property': ctx.prop, 'kind': kind, 'seed': ctx.seed, 'tier': ctx.tier,
                    'replay_cmd': './check %s --replay %s' % (ctx.prop, os.path.relpath(path, VERIF))})
    with open(path, 'w') as f:
        json.dump(payload, f, indent=1, default=repr, ensure_ascii=True)
    return os.path.relpath(path, VERIF)


def write_evidence(ctx, violations, obligations, discharged, checker_cmd, known_lines):
    meta = ctx.meta
    cov = {
        'obligations': obligations,
        'discharged': discharged,
        'checker_cmd': checker_cmd,
        'trusted_base': BASE_TRUSTED + list(meta.get('trusted', [])),
        'evaluations': ctx.evaluations,
        'distinct_nontrivial': len(ctx.keys),
        'rule': meta.get('rule', ''),
        'samples': ctx.samples[:12] or ['(no correspondence case was run)'],
        'exhaustive': bool(meta.get('exhaustive', False)) and not ctx.harness_crash,
        'theorems': [{'name': t['name'], 'statement': t['statement'][:600], 'axioms': t.get('axioms')}
                     for t in ctx.theorems],
        'correspondence_streams': ctx.streams,
        'input_distribution': ctx.dist,
        'extract_errors': ctx.extract_errors,
        'build_ok': ctx.build_ok,
        'broken_theorems': ctx.broken_theorems,
        'audit_problems': ctx.audit_problems,
        'mismatches': ctx.mismatches[:5],
        'oracle_failures': ctx.oracle_fails[:5],
        'known_findings_replayed': known_lines,
        'notes': ctx.notes,
        'modelled_not_verified': meta.get('modelled', []),
    }
    ev = {
        'property_id': ctx.prop,
        'tier': ctx.tier,
        'seed': ctx.seed,
        'level': 'proof',
        'coverage': cov,
        'assumptions': list(meta.get('assumptions', [])),
        'wall_s': round(time.time() - ctx.t0, 2),
        'violations': violations,
    }
    # evidence/ describes /repo itself; a run against a scratch copy (VERIF_REPO) must not overwrite it
    evdir = os.path.join(VERIF, 'evidence')
    if os.path.abspath(REPO) != '/repo':
        evdir = os.path.join(VERIF, 'replays', '_scratch_evidence')
    os.makedirs(evdir, exist_ok=True)
    with open(os.path.join(evdir, ctx.prop + '.json'), 'w') as f:
        json.dump(ev, f, indent=1, default=repr, ensure_ascii=True)


def run_harness(ctx, deep=False):
    ctx.deep = deep
    try:
        ctx.harness.run(ctx)
    except Exception:
        ctx.harness_crash = traceback.format_exc()


def check(prop, tier, seed):
    sys.path.insert(0, VERIF)
    os.environ[GUARD] = '1'
    harness = importlib.import_module('harness.' + prop.lower())
    ctx = Ctx(prop, tier, seed, harness)
    checker_cmd = ('cd lean && lake build %s drv_%s && lake env lean .lake/audit/%s.lean   '
                   '# + grep audit (sorry|admit|axiom|native_decide|bv_decide|implemented_by|unsafe|maxHeartbeats 0)'
                   % (ctx.props_module(), prop.lower(), prop))
    # 1-3
    ctx.extract()
    ctx.build()
    ctx.audit()
    if tier == 'thorough' and ctx.build_ok:
        ok, out = ctx.leanchecker()
        checker_cmd += ' && lake env leanchecker <closure of %s>' % ctx.props_module()
        if not ok:
            ctx.audit_problems.append('leanchecker failed: ' + out[-500:])
            ctx.audit_ok = False
    if ctx.build_ok and not ctx.audit_ok:
        # the proofs do not meet the trusted-base contract: machinery failure, no verdict
        write_evidence(ctx, 0, len(ctx.theorems), 0, checker_cmd, [])
        print('AUDIT FAILED for %s: %s' % (prop, ctx.audit_problems))
        return 2
    # 4-6
    run_harness(ctx)
    known = [k for k in load_known() if k['property'] == prop]
    open_keys = {k['key']: k for k in known if k.get('status') == 'open'}

    def split_fails():
        listed, unlisted = {}, []
        for f in ctx.oracle_fails:
            if f['key'] in open_keys:
                listed.setdefault(f['key'], f)
            else:
                unlisted.append(f)
        return listed, unlisted

    listed, unlisted = split_fails()
    proof_broken = (not ctx.build_ok) or bool(ctx.extract_errors)
    tie_broken = bool(ctx.mismatches) or bool(ctx.harness_crash) or (ctx.driver_ok is False)
    if (proof_broken or tie_broken) and not unlisted:
        # 7: search for a concrete failing input before reporting
        run_harness(ctx, deep=True)
        listed, unlisted = split_fails()

    known_lines = []
    for key, f in sorted(listed.items()):
        line = 'KNOWN-FINDING: property=%s %s [%s]' % (prop, open_keys[key]['what'], key)
        print(line)
        known_lines.append(line)
    for key, k in open_keys.items():
        if key not in listed:
            ctx.note('known finding %s was not reproduced by this run' % key)

    n_streams = max(1, len(ctx.streams))
    obligations = len(ctx.theorems) + n_streams + len(listed)
    discharged = 0
    if ctx.build_ok and ctx.audit_ok:
        discharged += len(ctx.theorems)
    if not ctx.harness_crash and ctx.driver_ok:
        discharged += sum(1 for s in ctx.streams.values() if s['diffs'] == 0)
        if not ctx.streams:
            discharged += 1
    discharged += len(listed)

    rc = 0
    if unlisted:
        f = unlisted[0]
        path = write_replay(ctx, 'oracle', {
            'what': f['what'], 'key': f['key'], 'case': f['case'],
            'other_failures': [{'key': g['key'], 'what': g['what']} for g in unlisted[1:10]],
            'broken_theorems': ctx.broken_theorems, 'extract_errors': ctx.extract_errors,
            'mismatches': ctx.mismatches[:3]})
        print('VIOLATION property=%s replay=%s' % (prop, path))
        rc = 1
    elif proof_broken or tie_broken:
        path = write_replay(ctx, 'unproved', {
            'what': 'the proof or the model/code correspondence no longer checks and no failing input was found',
            'broken_theorems': ctx.broken_theorems,
            'extract_errors': ctx.extract_errors,
            'build_log_tail': ctx.build_log[-3000:] if not ctx.build_ok else '',
            'correspondence_mismatches': ctx.mismatches[:10],
            'harness_crash': ctx.harness_crash,
            'driver_ok': ctx.driver_ok})
        print('VIOLATION property=%s replay=%s no-failing-input-found' % (prop, path))
        rc = 1
    write_evidence(ctx, len(unlisted) + (1 if rc == 1 and not unlisted else 0), obligations, discharged,
                   checker_cmd, known_lines)
    if rc == 0:
        print('OK property=%s tier=%s seed=%d theorems=%d evaluations=%d distinct=%d wall=%.1fs'
              % (prop, tier, seed, len(ctx.theorems), ctx.evaluations, len(ctx.keys), time.time() - ctx.t0))
    return rc


def replay(prop, path):
    sys.path.insert(0, VERIF)
    harness = importlib.import_module('harness.' + prop.lower())
    data = json.load(open(os.path.join(VERIF, path) if not os.path.isabs(path) else path))
    if not hasattr(harness, 'replay') or 'case' not in data:
        print(json.dumps(data, indent=1))
        print('(no executable case in this replay: it names the theorem / correspondence that no longer checks)')
        return 0
    ok, text = harness.replay(data['case'])
    print(text)
    return 0 if ok else 1
