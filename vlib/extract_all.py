"""Regenerate every lean/SqlObjVerif/Extracted/*.lean from /repo (used by setup.sh)."""
import importlib
import os
import pkgutil
import sys

HERE = os.path.dirname(os.path.dirname(os.path.abspath(__file__)))
sys.path.insert(0, HERE)
from vlib import framework  # noqa: E402
import vlib.extractors as ex  # noqa: E402


def main():
    rc = 0
    for m in pkgutil.iter_modules(ex.__path__):
        mod = importlib.import_module('vlib.extractors.' + m.name)
        if not hasattr(mod, 'extract'):
            continue
        path = os.path.join(framework.LEAN, 'SqlObjVerif', 'Extracted', mod.TARGET + '.lean')
        try:
            text = mod.extract(framework.REPO)
        except Exception as e:
            print('extract %s failed: %s (keeping the committed file)' % (m.name, e))
            rc = 1
            continue
        old = open(path).read() if os.path.exists(path) else None
        if old != text:
            open(path, 'w').write(text)
            print('regenerated', path)
    return rc


if __name__ == '__main__':
    main()
    sys.exit(0)
