"""print the mutation-agent prompt for a property (only the property's text goes in; nothing from /verif)"""
import json, sys, os
HERE = os.path.dirname(os.path.dirname(os.path.abspath(__file__)))
pid, wt, n = sys.argv[1], sys.argv[2], sys.argv[3]
for l in open(os.path.join(HERE, 'properties.jsonl')):
    p = json.loads(l)
    if p['id'] == pid:
        text = '%s\n  %s\n  (Quantified over: %s)' % (p['title'], p['statement'], p['quantifier']['text'])
        t = open(os.path.join(HERE, '.prompts', os.environ.get('MUTANT_PROMPT','mutant.md'))).read()
        print(t.replace('{WT}', wt).replace('{PROP}', text).replace('{N}', n))
